"""Symbolic values and shapes (types) used by the pyvc engine.

Scalars are plain z3 terms (Int / Bool / Real / BitVec) or plain Python
constants.  Structured values are small immutable Python objects wrapping z3
terms.  Mutation in the analysed program is modelled by *rebinding* (see
DESIGN.md 2.2: sound only without aliasing).
"""
import itertools
import z3

_counter = itertools.count()


def fresh_name(base):
    return "%s!%d" % (base, next(_counter))


class EngineError(Exception):
    """The engine cannot handle this construct (function is outside the subset)."""


# ----------------------------------------------------------------------------
# Shapes

class Shape(object):
    pass


class TInt(Shape):
    def __init__(self, lo=None, hi=None):
        self.lo, self.hi = lo, hi      # inclusive bounds (python ints or None)

    def __repr__(self):
        return "Int[%s,%s]" % (self.lo, self.hi) if (self.lo is not None or self.hi is not None) else "Int"


class TBool(Shape):
    def __repr__(self):
        return "Bool"


class TReal(Shape):
    def __init__(self, lo=None, hi=None, hi_strict=False):
        self.lo, self.hi, self.hi_strict = lo, hi, hi_strict

    def __repr__(self):
        return "Real"


class TBV(Shape):
    """An integer represented as a *signed* bit-vector of the given width with
    the range [lo, hi] (python ints)."""
    def __init__(self, width, lo=None, hi=None):
        self.width, self.lo, self.hi = width, lo, hi

    def __repr__(self):
        return "BV%d[%s,%s]" % (self.width, self.lo, self.hi)


class TNone(Shape):
    def __repr__(self):
        return "None"


class TConst(Shape):
    def __init__(self, value):
        self.value = value

    def __repr__(self):
        return "Const(%r)" % (self.value,)


class TTuple(Shape):
    def __init__(self, *items):
        self.items = tuple(items)

    def __repr__(self):
        return "Tuple%r" % (self.items,)


class TList(Shape):
    """A python list of *statically known* length (each item has its own shape)."""
    def __init__(self, *items):
        self.items = tuple(items)

    def __repr__(self):
        return "List%r" % (self.items,)


class TSeq(Shape):
    """A sequence (list / bytes / generator result) of symbolic length."""
    def __init__(self, elem, kind="list", maxlen=None):
        self.elem, self.kind, self.maxlen = elem, kind, maxlen

    def __repr__(self):
        return "Seq(%r)" % (self.elem,)


class TOpt(Shape):
    def __init__(self, inner):
        self.inner = inner

    def __repr__(self):
        return "Opt(%r)" % (self.inner,)


class TRec(Shape):
    """A record / object with named fields."""
    def __init__(self, cls, **fields):
        self.cls, self.fields = cls, fields

    def __repr__(self):
        return "Rec(%s,%r)" % (self.cls, self.fields)


class TMap(Shape):
    """dict with scalar (or tuple-of-scalar) keys."""
    def __init__(self, key, val):
        self.key, self.val = key, val

    def __repr__(self):
        return "Map(%r,%r)" % (self.key, self.val)


class TSet(Shape):
    def __init__(self, key):
        self.key = key

    def __repr__(self):
        return "Set(%r)" % (self.key,)


class TSmallSet(Shape):
    """a set over a small fixed universe of python constants (e.g. the 24 Routes, or None + Routes):
    one presence flag per candidate"""
    def __init__(self, universe):
        self.universe = tuple(universe)

    def __repr__(self):
        return "SmallSet(%d)" % len(self.universe)


Byte = TInt(0, 255)


# ----------------------------------------------------------------------------
# Structured values

class NoneV(object):
    _inst = None

    def __new__(cls):
        if cls._inst is None:
            cls._inst = object.__new__(cls)
        return cls._inst

    def __repr__(self):
        return "NONE"


NONE = NoneV()


class ListV(object):
    """python list with statically known length."""
    __slots__ = ("items",)

    def __init__(self, items):
        self.items = tuple(items)

    def __repr__(self):
        return "ListV%r" % (self.items,)


class SeqV(object):
    """Sequence of symbolic length: z3 arrays (one per scalar leaf of the
    element shape) plus a length term."""
    __slots__ = ("length", "elem", "arrs", "kind", "base")

    def __init__(self, length, elem, arrs, kind="list", base=0):
        # element i lives at index base + i of the arrays (slicing only moves the base)
        self.length, self.elem, self.arrs, self.kind, self.base = length, elem, arrs, kind, base

    def retag(self, kind):
        return SeqV(self.length, self.elem, self.arrs, kind, self.base)

    def __repr__(self):
        return "SeqV(len=%s,%r)" % (self.length, self.elem)


class OptV(object):
    __slots__ = ("isnone", "val")

    def __init__(self, isnone, val):
        self.isnone, self.val = isnone, val

    def __repr__(self):
        return "OptV(%s,%r)" % (self.isnone, self.val)


class ObjV(object):
    __slots__ = ("cls", "fields")

    def __init__(self, cls, fields):
        self.cls, self.fields = cls, dict(fields)

    def with_field(self, name, value):
        f = dict(self.fields)
        f[name] = value
        return ObjV(self.cls, f)

    def __repr__(self):
        return "ObjV(%s,%r)" % (self.cls, self.fields)


class MapV(object):
    """dict: domain array K->Bool and one value array per leaf of the value shape."""
    __slots__ = ("key", "val", "dom", "arrs")

    def __init__(self, key, val, dom, arrs):
        self.key, self.val, self.dom, self.arrs = key, val, dom, arrs

    def __repr__(self):
        return "MapV(%r->%r)" % (self.key, self.val)


class SetV(object):
    __slots__ = ("key", "dom")

    def __init__(self, key, dom):
        self.key, self.dom = key, dom


class LitSet(object):
    """A set literal / set built from statically many (possibly symbolic) members; `conds[i]`
    (python bool / z3 Bool) says whether candidate i is present at all."""
    __slots__ = ("items", "conds")

    def __init__(self, items, conds=None):
        self.items = tuple(items)
        self.conds = tuple(conds) if conds is not None else None

    def cond(self, i):
        return True if self.conds is None else self.conds[i]

    def __repr__(self):
        return "LitSet%r" % (self.items,)


class ImgSetV(object):
    """set(f(x) for x in seq) over a sequence of symbolic length: only its cardinality is modelled"""
    __slots__ = ("seq", "fn")

    def __init__(self, seq, fn):
        self.seq, self.fn = seq, fn        # fn(index term) -> scalar z3 term


class MapViewV(object):
    """items() / values() / keys() view of a symbolic map"""
    __slots__ = ("m", "what")

    def __init__(self, m, what):
        self.m, self.what = m, what


class EnumV(object):
    """enumerate(seq, start) over a sequence of symbolic length"""
    __slots__ = ("seq", "start")

    def __init__(self, seq, start=0):
        self.seq, self.start = seq, start


class RangeV(object):
    __slots__ = ("lo", "hi", "step")

    def __init__(self, lo, hi, step=1):
        self.lo, self.hi, self.step = lo, hi, step


class ExcV(object):
    __slots__ = ("cls", "args", "attrs")

    def __init__(self, cls, args=(), attrs=None):
        self.cls, self.args = cls, tuple(args)
        self.attrs = dict(attrs or {})       # attributes assigned to the exception object by a handler (`exc.chip = chip`)

    def __repr__(self):
        return "ExcV(%s)" % self.cls


class StrV(object):
    """An opaque string value (format results, messages): only identity matters."""
    __slots__ = ("text",)

    def __init__(self, text="?"):
        self.text = text


# ----------------------------------------------------------------------------
# helpers on scalars

def is_z3(v):
    return isinstance(v, z3.ExprRef)


def is_bool(v):
    return isinstance(v, bool) or (is_z3(v) and z3.is_bool(v))


def is_intlike(v):
    if isinstance(v, bool):
        return True
    if isinstance(v, int):
        return True
    return is_z3(v) and (z3.is_int(v) or z3.is_bool(v))


def is_bv(v):
    return is_z3(v) and z3.is_bv(v)


def is_real(v):
    return isinstance(v, float) or (is_z3(v) and z3.is_real(v))


def is_scalar(v):
    return isinstance(v, (bool, int, float)) or (is_z3(v) and (z3.is_int(v) or z3.is_bool(v) or z3.is_real(v) or z3.is_bv(v)))


def to_int_term(v):
    """python int/bool or z3 int/bool -> z3 Int term (bools become 0/1)."""
    if isinstance(v, bool):
        return z3.IntVal(1 if v else 0)
    if isinstance(v, int):
        return z3.IntVal(v)
    if is_z3(v):
        if z3.is_bool(v):
            return z3.If(v, z3.IntVal(1), z3.IntVal(0))
        if z3.is_int(v):
            return v
        if z3.is_bv(v):
            # a machine integer (signed vector, kept in range by no-overflow obligations) used where a mathematical integer is
            # needed (an index, a length): its signed value
            return z3.BV2Int(v, True)
    raise EngineError("not an integer value: %s" % type(v).__name__)


def to_bool_term(v):
    if isinstance(v, bool):
        return z3.BoolVal(v)
    if is_z3(v) and z3.is_bool(v):
        return v
    raise EngineError("not a boolean value: %s" % type(v).__name__)


def leaf_sort(shape):
    if isinstance(shape, TInt):
        return z3.IntSort()
    if isinstance(shape, TBool):
        return z3.BoolSort()
    if isinstance(shape, TReal):
        return z3.RealSort()
    if isinstance(shape, TBV):
        return z3.BitVecSort(shape.width)
    raise EngineError("no scalar sort for shape %r" % (shape,))


def shape_leaves(shape):
    """The scalar leaves of a (tuple-structured) element shape, in order."""
    if isinstance(shape, (TInt, TBool, TReal, TBV)):
        return [shape]
    if isinstance(shape, TTuple):
        out = []
        for s in shape.items:
            out.extend(shape_leaves(s))
        return out
    if isinstance(shape, TOpt):
        return [TBool()] + shape_leaves(shape.inner)
    if isinstance(shape, TRec):
        out = []
        for k in sorted(shape.fields):
            out.extend(shape_leaves(shape.fields[k]))
        return out
    if isinstance(shape, (TNone, TConst)):
        return []
    if isinstance(shape, TSmallSet):
        return [TBool() for _ in shape.universe]
    raise EngineError("element shape %r not supported in sequences/maps" % (shape,))


def build_from_leaves(shape, leaves):
    """Inverse of flattening: consume scalar terms from the iterator `leaves`."""
    if isinstance(shape, (TInt, TBool, TReal, TBV)):
        return next(leaves)
    if isinstance(shape, TTuple):
        return tuple(build_from_leaves(s, leaves) for s in shape.items)
    if isinstance(shape, TOpt):
        isn = next(leaves)
        return OptV(isn, build_from_leaves(shape.inner, leaves))
    if isinstance(shape, TRec):
        return ObjV(shape.cls, {k: build_from_leaves(shape.fields[k], leaves) for k in sorted(shape.fields)})
    if isinstance(shape, TNone):
        return NONE
    if isinstance(shape, TConst):
        return shape.value
    if isinstance(shape, TSmallSet):
        return LitSet([NONE if u is None else u for u in shape.universe], [next(leaves) for _ in shape.universe])
    raise EngineError("element shape %r not supported" % (shape,))


def flatten_value(shape, v):
    """Scalar leaves (z3 terms) of a value of the given element shape."""
    if isinstance(shape, TInt):
        if isinstance(v, ObjV) and "__id__" in v.fields:
            return [to_int_term(v.fields["__id__"])]       # an object stored by identity
        return [to_int_term(v)]
    if isinstance(shape, TBool):
        return [to_bool_term(v)]
    if isinstance(shape, TReal):
        return [to_real_term(v)]
    if isinstance(shape, TBV):
        if isinstance(v, int):
            return [z3.BitVecVal(v, shape.width)]
        return [v]
    if isinstance(shape, TTuple):
        if isinstance(v, ListV):
            v = v.items
        if not isinstance(v, tuple) or len(v) != len(shape.items):
            raise EngineError("value of type %s does not fit shape %r" % (type(v).__name__, shape))
        out = []
        for s, x in zip(shape.items, v):
            out.extend(flatten_value(s, x))
        return out
    if isinstance(shape, TOpt):
        if v is NONE:
            return [z3.BoolVal(True)] + [default_leaf(s) for s in shape_leaves(shape.inner)]
        if isinstance(v, OptV):
            return [to_bool_term(v.isnone)] + flatten_value(shape.inner, v.val)
        return [z3.BoolVal(False)] + flatten_value(shape.inner, v)
    if isinstance(shape, TRec):
        out = []
        for k in sorted(shape.fields):
            out.extend(flatten_value(shape.fields[k], v.fields[k]))
        return out
    if isinstance(shape, (TNone, TConst)):
        return []
    if isinstance(shape, TSmallSet):
        if not isinstance(v, LitSet):
            raise EngineError("cannot flatten %s as a small set" % type(v).__name__)
        out = []
        for u in shape.universe:
            uu = NONE if u is None else u
            cs = [to_bool_term(v.cond(i)) for i, x in enumerate(v.items) if (x is uu) or (not is_z3(x) and x is not NONE and uu is not NONE and x == uu)]
            if any(is_z3(x) for x in v.items):
                raise EngineError("small set with symbolic members")
            out.append(z3.Or(*cs) if len(cs) > 1 else (cs[0] if cs else z3.BoolVal(False)))
        return out
    raise EngineError("cannot flatten %s as %r" % (type(v).__name__, shape))


def default_leaf(shape):
    if isinstance(shape, TInt):
        return z3.IntVal(0)
    if isinstance(shape, TBool):
        return z3.BoolVal(False)
    if isinstance(shape, TReal):
        return z3.RealVal(0)
    if isinstance(shape, TBV):
        return z3.BitVecVal(0, shape.width)
    raise EngineError("no default for %r" % (shape,))


def to_real_term(v):
    if isinstance(v, bool):
        return z3.RealVal(1 if v else 0)
    if isinstance(v, int):
        return z3.RealVal(v)
    if isinstance(v, float):
        from fractions import Fraction
        fr = Fraction(v)
        return z3.RealVal(fr.numerator) / z3.RealVal(fr.denominator)
    if is_z3(v):
        if z3.is_real(v):
            return v
        if z3.is_int(v):
            return z3.ToReal(v)
        if z3.is_bool(v):
            return z3.If(v, z3.RealVal(1), z3.RealVal(0))
    raise EngineError("not a real value: %s" % type(v).__name__)


def range_facts(shape, term):
    """Type-invariant facts of a scalar of the given shape."""
    out = []
    if isinstance(shape, TInt):
        if shape.lo is not None:
            out.append(term >= shape.lo)
        if shape.hi is not None:
            out.append(term <= shape.hi)
    elif isinstance(shape, TBV):
        if shape.lo is not None:
            out.append(term >= z3.BitVecVal(shape.lo, shape.width))
        if shape.hi is not None:
            out.append(term <= z3.BitVecVal(shape.hi, shape.width))
    elif isinstance(shape, TReal):
        if shape.lo is not None:
            out.append(term >= shape.lo)
        if shape.hi is not None:
            out.append(term < shape.hi if shape.hi_strict else term <= shape.hi)
    return out


def value_facts(shape, v):
    """Type-invariant facts for a whole (non-sequence) value."""
    out = []
    if isinstance(shape, (TInt, TBV, TReal)):
        if is_z3(v):
            out.extend(range_facts(shape, v))
    elif isinstance(shape, TTuple):
        items = v.items if isinstance(v, ListV) else v
        for s, x in zip(shape.items, items):
            out.extend(value_facts(s, x))
    elif isinstance(shape, TOpt) and isinstance(v, OptV):
        for f in value_facts(shape.inner, v.val):
            out.append(z3.Implies(z3.Not(v.isnone), f))
    elif isinstance(shape, TRec) and isinstance(v, ObjV):
        for k in shape.fields:
            out.extend(value_facts(shape.fields[k], v.fields[k]))
    return out


def fresh(shape, name):
    """-> (value, facts): a fresh symbolic value of the given shape."""
    if isinstance(shape, TInt):
        t = z3.Int(fresh_name(name))
        if shape.lo is not None or shape.hi is not None:
            from . import ops
            ops.RANGES[t.decl().name()] = (shape.lo, shape.hi)
        return t, range_facts(shape, t)
    if isinstance(shape, TBool):
        return z3.Bool(fresh_name(name)), []
    if isinstance(shape, TReal):
        t = z3.Real(fresh_name(name))
        return t, range_facts(shape, t)
    if isinstance(shape, TBV):
        t = z3.BitVec(fresh_name(name), shape.width)
        return t, range_facts(shape, t)
    if isinstance(shape, TNone):
        return NONE, []
    if isinstance(shape, TConst):
        return shape.value, []
    if isinstance(shape, TTuple):
        vals, facts = [], []
        for i, s in enumerate(shape.items):
            v, f = fresh(s, "%s.%d" % (name, i))
            vals.append(v)
            facts.extend(f)
        return tuple(vals), facts
    if isinstance(shape, TList):
        vals, facts = [], []
        for i, s in enumerate(shape.items):
            v, f = fresh(s, "%s.%d" % (name, i))
            vals.append(v)
            facts.extend(f)
        return ListV(vals), facts
    if isinstance(shape, TOpt):
        isn = z3.Bool(fresh_name(name + ".isnone"))
        v, f = fresh(shape.inner, name + ".val")
        return OptV(isn, v), [z3.Implies(z3.Not(isn), x) for x in f]
    if isinstance(shape, TRec):
        fields, facts = {}, []
        for k in sorted(shape.fields):
            v, f = fresh(shape.fields[k], "%s.%s" % (name, k))
            fields[k] = v
            facts.extend(f)
        return ObjV(shape.cls, fields), facts
    if isinstance(shape, TSmallSet):
        return LitSet([NONE if u is None else u for u in shape.universe],
                      [z3.Bool(fresh_name("%s.has%d" % (name, i))) for i, _ in enumerate(shape.universe)]), []
    if isinstance(shape, TSeq):
        n = z3.Int(fresh_name(name + ".len"))
        arrs = [z3.Array(fresh_name("%s.a%d" % (name, i)), z3.IntSort(), leaf_sort(l))
                for i, l in enumerate(shape_leaves(shape.elem))]
        facts = [n >= 0]
        if shape.maxlen is not None:
            facts.append(n <= shape.maxlen)
        # type invariant of the elements (also instantiated at every read): quantified, with the
        # read as trigger, so that quantified specs and quantified code facts agree on it
        j = z3.Int(fresh_name("ti"))
        for a, l in zip(arrs, shape_leaves(shape.elem)):
            rf = range_facts(l, z3.Select(a, j))
            if rf:
                facts.append(z3.ForAll([j], z3.And(*rf), patterns=[z3.Select(a, j)]))
        return SeqV(n, shape.elem, arrs, shape.kind), facts
    if isinstance(shape, TMap):
        ks = key_sort(shape.key)
        dom = z3.Array(fresh_name(name + ".dom"), ks, z3.BoolSort())
        arrs = [z3.Array(fresh_name("%s.v%d" % (name, i)), ks, leaf_sort(l))
                for i, l in enumerate(shape_leaves(shape.val))]
        return MapV(shape.key, shape.val, dom, arrs), []
    if isinstance(shape, TSet):
        ks = key_sort(shape.key)
        return SetV(shape.key, z3.Array(fresh_name(name + ".dom"), ks, z3.BoolSort())), []
    raise EngineError("cannot create a symbolic value of shape %r" % (shape,))


_tuple_sorts = {}


def key_sort(shape):
    """z3 sort used for dict/set keys of this shape."""
    leaves = shape_leaves(shape)
    if len(leaves) == 1 and not isinstance(shape, TTuple):
        return leaf_sort(leaves[0])
    sig = tuple(str(leaf_sort(l)) for l in leaves)
    if sig not in _tuple_sorts:
        dt = z3.Datatype("K_" + "_".join(sig))
        dt.declare("mk", *[("f%d" % i, leaf_sort(l)) for i, l in enumerate(leaves)])
        _tuple_sorts[sig] = dt.create()
    return _tuple_sorts[sig]


def key_term(shape, v):
    leaves = flatten_value(shape, v)
    if len(leaves) == 1 and not isinstance(shape, TTuple):
        return leaves[0]
    return key_sort(shape).mk(*leaves)


def shape_of(v):
    """Infer a shape from a value (used to havoc loop-modified variables)."""
    if isinstance(v, bool):
        return TBool()
    if isinstance(v, int):
        return TInt()
    if isinstance(v, float):
        return TReal()
    if is_z3(v):
        if z3.is_bool(v):
            return TBool()
        if z3.is_int(v):
            return TInt()
        if z3.is_real(v):
            return TReal()
        if z3.is_bv(v):
            return TBV(v.size())
    if v is NONE:
        return TNone()
    if isinstance(v, tuple):
        return TTuple(*[shape_of(x) for x in v])
    if isinstance(v, ListV):
        return TList(*[shape_of(x) for x in v.items])
    if isinstance(v, SeqV):
        return TSeq(v.elem, v.kind)
    if isinstance(v, OptV):
        return TOpt(shape_of(v.val))
    if isinstance(v, ObjV):
        return TRec(v.cls, **{k: shape_of(x) for k, x in v.fields.items()})
    if isinstance(v, MapV):
        return TMap(v.key, v.val)
    if isinstance(v, SetV):
        return TSet(v.key)
    if isinstance(v, LitSet) and v.conds is not None and all(not is_z3(x) for x in v.items):
        return TSmallSet([None if x is NONE else x for x in v.items])
    if isinstance(v, StrV) or isinstance(v, str):
        return TConst(v)
    return TConst(v)
