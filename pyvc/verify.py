"""Verify one contract: generate obligations from the real function, discharge
them, extract counterexamples.  Runs inside a worker process."""
import ast
import os
import subprocess
import tempfile
import time
import traceback

import z3

from . import ops, seqs
from .engine import Engine, State, Raised, FuncV, walk_own
from .ops import truth, b_and, b_not
from .values import (EngineError, NONE, ListV, SeqV, OptV, ObjV, MapV, SetV, StrV, ExcV, fresh, shape_of,
                     is_z3, to_int_term, TSeq, shape_leaves, TInt, TConst)

QUICK_TIMEOUT_MS = 30000
THOROUGH_TIMEOUT_MS = 120000


def concretize(v, model, depth=0):
    """symbolic value -> python value under a z3 model"""
    if isinstance(v, (bool, int, float, str)) or v is None:
        return v
    if v is NONE:
        return None
    if is_z3(v):
        r = model.eval(v, model_completion=True)
        if z3.is_int_value(r):
            return r.as_long()
        if z3.is_true(r):
            return True
        if z3.is_false(r):
            return False
        if z3.is_rational_value(r):
            from fractions import Fraction
            return Fraction(r.numerator_as_long(), r.denominator_as_long())
        if z3.is_bv_value(r):
            return r.as_signed_long()
        if z3.is_algebraic_value(r):
            return float(r.approx(20).as_fraction())
        return str(r)
    if isinstance(v, tuple):
        return tuple(concretize(x, model) for x in v)
    if isinstance(v, ListV):
        return [concretize(x, model) for x in v.items]
    if isinstance(v, OptV):
        return None if concretize(v.isnone, model) else concretize(v.val, model)
    if isinstance(v, ObjV):
        return {"__class__": v.cls, **{k: concretize(x, model) for k, x in v.fields.items()}}
    if isinstance(v, SeqV):
        n = concretize(v.length, model)
        n = max(0, min(int(n), 64))
        out = [concretize(seqs.seq_get(v, i)[0], model) for i in range(n)]
        if v.kind in ("bytes", "bytearray"):
            out = [x % 256 if isinstance(x, int) else x for x in out]    # unread elements are unconstrained in the model
            try:
                return bytes(out)
            except (ValueError, TypeError):
                return out
        return out
    from .values import LitSet
    if isinstance(v, LitSet):
        out = []
        for i, x in enumerate(v.items):
            c = v.cond(i)
            if c is True or (c is not False and concretize(c, model)):
                out.append(concretize(x, model))
        return {"__set__": out}
    if isinstance(v, ExcV):
        return "<%s>" % v.cls
    if isinstance(v, StrV):
        return "<str>"
    return repr(v)


def jsonable(x):
    from fractions import Fraction
    if isinstance(x, Fraction):
        return {"__fraction__": [x.numerator, x.denominator]}
    if isinstance(x, bytes):
        return {"__bytes__": list(x)}
    if isinstance(x, tuple):
        return {"__tuple__": [jsonable(i) for i in x]}
    if isinstance(x, (set, frozenset)):
        return {"__set__": [jsonable(i) for i in x]}
    if isinstance(x, list):
        return [jsonable(i) for i in x]
    if isinstance(x, dict):
        return {str(k): jsonable(v) for k, v in x.items()}
    if isinstance(x, float) and (x != x or x in (float("inf"), float("-inf"))):
        return repr(x)
    return x


def unjson(x):
    from fractions import Fraction
    if isinstance(x, dict):
        if "__fraction__" in x:
            return Fraction(*x["__fraction__"])
        if "__bytes__" in x:
            return bytes(x["__bytes__"])
        if "__tuple__" in x:
            return tuple(unjson(i) for i in x["__tuple__"])
        if "__set__" in x:
            return set(unjson(i) for i in x["__set__"])
        return {k: unjson(v) for k, v in x.items()}
    if isinstance(x, list):
        return [unjson(i) for i in x]
    return x


def check_formula(pc, goal, timeout_ms, want_model=True, tier="quick"):
    """-> (status, model or None, backend, seconds); status proved/refuted/unknown"""
    t0 = time.time()
    if isinstance(goal, bool) and goal:
        return "proved", None, "trivial", 0.0
    s = z3.Solver()
    first = min(timeout_ms, 5000)
    s.set("timeout", first)
    s.add(*pc)
    s.add(*ops.axioms_for(list(pc) + [goal]))
    s.add(z3.Not(goal) if not isinstance(goal, bool) else z3.BoolVal(not goal))
    r = s.check()
    dt = time.time() - t0
    if r == z3.unsat:
        return "proved", None, "z3", dt
    if r == z3.sat:
        return "refuted", s.model(), "z3", dt
    # second opinion: cvc5 on the same query text (quantified obligations z3 gives up on are often immediate for it)
    st2, dt2 = run_cvc5(s.to_smt2(), min(timeout_ms, 30000))
    if st2 == "unsat":
        return "proved", None, "cvc5", dt + dt2
    if timeout_ms > first:
        # z3 again with the full budget
        s.set("timeout", timeout_ms)
        t1 = time.time()
        r = s.check()
        dt += time.time() - t1
        if r == z3.unsat:
            return "proved", None, "z3", dt + dt2
        if r == z3.sat:
            return "refuted", s.model(), "z3", dt + dt2
    if tier == "quick":
        return "unknown", None, "z3+cvc5", dt + dt2
    # different z3 configuration (fresh solver, different seed / tactics)
    for cfg in ({"smt.random_seed": 7, "smt.arith.solver": 2}, {"smt.mbqi": False, "smt.random_seed": 3}):
        s2 = z3.Solver()
        s2.set("timeout", timeout_ms)
        for k, v in cfg.items():
            try:
                s2.set(k, v)
            except z3.Z3Exception:
                pass
        s2.add(*s.assertions())
        t1 = time.time()
        r2 = s2.check()
        dt += time.time() - t1
        if r2 == z3.unsat:
            return "proved", None, "z3(alt)", dt + dt2
        if r2 == z3.sat:
            return "refuted", s2.model(), "z3(alt)", dt + dt2
    return "unknown", None, "z3+cvc5", dt + dt2


def run_cvc5(smt2, timeout_ms):
    t0 = time.time()
    if not os.path.exists("/usr/bin/cvc5"):
        return "unknown", 0.0
    text = "(set-logic ALL)\n" + smt2
    with tempfile.NamedTemporaryFile("w", suffix=".smt2", delete=False) as f:
        f.write(text)
        path = f.name
    try:
        p = subprocess.run(["/usr/bin/cvc5", "--tlimit=%d" % timeout_ms, "--strings-exp", path],
                           capture_output=True, text=True, timeout=timeout_ms / 1000.0 + 5)
        out = p.stdout.strip().splitlines()
        res = out[0].strip() if out else "unknown"
    except Exception:
        res = "unknown"
    finally:
        os.unlink(path)
    return (res if res in ("sat", "unsat") else "unknown"), time.time() - t0


class FnResult(object):
    """picklable result of verifying one contract"""
    def __init__(self, target):
        self.target = target
        self.obligations = []      # dicts
        self.error = None          # engine limitation / crash text
        self.error_kind = None     # 'subset' | 'crash' | 'missing'
        self.notes = []
        self.sha = None
        self.file = None
        self.lineno = None
        self.covers = []
        self.seconds = 0.0
        self.solver_seconds = 0.0
        self.paths = 0
        self.assumptions = []
        self.tentative = None      # text: a loop header differs from the one the contract recorded (invariants tried anyway)


def build_inputs(con, engine):
    """symbolic parameters of the function under contract -> (env, facts, names in order)"""
    a = con.node.args
    names = [p.arg for p in a.posonlyargs + a.args] + [p.arg for p in a.kwonlyargs]
    env, facts = {}, []
    defaults = dict(zip([p.arg for p in (a.posonlyargs + a.args)][len(a.posonlyargs + a.args) - len(a.defaults):], a.defaults))
    for p, d in zip(a.kwonlyargs, a.kw_defaults):
        if d is not None:
            defaults[p.arg] = d
    for n in names:
        if n in con.params and isinstance(con.params[n], TConst) and isinstance(con.params[n].value, str) and con.params[n].value.startswith("class:"):
            from .modules import find_function
            from .engine import ClassRef
            mi, cnode, _ = find_function(con.params[n].value[len("class:"):])
            env[n] = ClassRef(cnode, mi)
        elif n in con.params:
            v, f = fresh(con.params[n], n)
            env[n] = v
            facts.extend(f)
        elif n in defaults:
            r = engine.ev(defaults[n], State({}, ()))
            env[n] = r[0][1]
        else:
            raise EngineError("contract for %s gives no shape for parameter %s" % (con.target, n))
    if a.vararg is not None:
        if a.vararg.arg in con.params:
            v, f = fresh(con.params[a.vararg.arg], a.vararg.arg)
            env[a.vararg.arg] = v
            facts.extend(f)
        else:
            env[a.vararg.arg] = ()
    if a.kwarg is not None:
        from .engine import ConstDict
        env[a.kwarg.arg] = ConstDict([])
        kwmap = con.options.get("kwargs")        # **kwargs of the function under contract: name -> ghost input
        if kwmap:
            ents = []
            for kname, gname in kwmap.items():
                v, f = fresh(con.params[gname], gname)
                env[gname] = v
                facts.extend(f)
                ents.append((kname, v))
            env[a.kwarg.arg] = ConstDict(ents)
    # extra ghost inputs declared by the contract (e.g. memory contents)
    for n, sh in con.params.items():
        if n not in env:        # closure variables of a nested function / ghost inputs
            v, f = fresh(sh, n)
            env[n] = v
            facts.extend(f)
    return env, facts, names



_REBOUND = {}


def _rebound_params(fn):
    """names of parameters of fn that its body assigns as plain names (x = ..., for x in ..., with ... as x)"""
    import ast as _ast
    key = id(fn)
    if key in _REBOUND and _REBOUND[key][0] is fn:
        return _REBOUND[key][1]
    params = set()
    if hasattr(fn, "args"):
        a = fn.args
        params = {x.arg for x in a.posonlyargs + a.args + a.kwonlyargs}
    out = set()
    for n in _ast.walk(fn) if hasattr(fn, "body") else []:
        tg = []
        if isinstance(n, _ast.Assign):
            tg = n.targets
        elif isinstance(n, (_ast.AnnAssign, _ast.For)):
            tg = [n.target]
        elif isinstance(n, _ast.With):
            tg = [i.optional_vars for i in n.items if i.optional_vars is not None]
        for t in tg:
            for m in _ast.walk(t):
                if isinstance(m, _ast.Name) and isinstance(m.ctx, _ast.Store) and m.id in params:
                    out.add(m.id)
    _REBOUND[key] = (fn, out)
    return out

def verify_contract(con, contracts, tier="quick", externals=None):
    res = FnResult(con.name)
    t0 = time.time()
    timeout = QUICK_TIMEOUT_MS if tier == "quick" else THOROUGH_TIMEOUT_MS
    try:
        con.bind()
    except KeyError as e:
        res.error, res.error_kind = "function not found: %s" % e, "missing"
        return res
    for key in con.modular:
        if key not in contracts:
            res.error, res.error_kind = "modular contract %s is not loaded" % key, "crash"
            return res
        if contracts[key].node is None:
            contracts[key].bind()
    res.sha = con.mod.sha(con.node)
    res.file = con.mod.path
    res.lineno = con.node.lineno
    res.assumptions = list(con.assumptions)
    # mechanical assumption scan (DESIGN 4.3): everything this contract takes on trust
    ext = sorted(getattr(con.cls, "externals", {}) or {})
    if ext:
        res.assumptions.append("%s: assumed (external) contracts for %s" % (con.short, ", ".join(ext)))
    for dn, pol in (con.options.get("decorators") or {}).items():
        res.assumptions.append("%s: decorator %s treated as %s" % (con.short, dn, pol))
    if con.modular:
        res.assumptions.append("%s: callee(s) used by contract (verified separately): %s" % (con.short, ", ".join(k.split("::")[-1] for k in con.modular)))
    if con.bv:
        res.assumptions.append("%s: integers modelled as signed %d-bit vectors with no-overflow obligations" % (con.short, con.bv))
    for text, decl in (con.options.get("abstracted") or {}).items():
        res.assumptions.append("%s: statement %r is ABSTRACTED: not executed, its effect over-approximated by arbitrary new values of %s; assumed: the calls "
                               "inside it have no other effect and do not raise (stores and mutating calls on other objects are excluded syntactically)"
                               % (con.short, text, ", ".join(sorted(decl)) or "nothing"))
    if con.options.get("loop_keep"):
        res.assumptions.append("%s: declared loop frame (not modified by loops): %s" % (con.short, ", ".join(con.options["loop_keep"])))
    if con.options.get("opaque_yields"):
        res.assumptions.append("%s: yielded values are not recorded (facts about them are ghost assertions at the yield)" % con.short)
    opts = dict(con.options)
    opts["contract"] = con
    if con.yield_shape is not None:
        opts["yield_shape"] = con.yield_shape
    if con.ghost_asserts:
        opts["ghost_asserts"] = con.ghost_asserts
    if con.ghost_updates:
        opts["ghost_updates"] = con.ghost_updates
        opts["ghost_shapes"] = con.ghost_vars
    E = Engine(con.mod, con.node, con.clsnode, con.name, con.spec_mod, contracts,
               raises=set(con.raises_nodes), loops=con.loops, bv=con.bv, modular=con.modular,
               externals=dict(externals or {}, **getattr(con.cls, "externals", {})), options=opts)
    try:
        env, facts, names = build_inputs(con, E)
        E.options["entry"] = dict(env)
        is_gen = any(isinstance(n, (ast.Yield, ast.YieldFrom)) for n in walk_own(con.node))
        st = State(dict(env), facts, ListV([]) if is_gen else None, ListV([]))
        for gname, gshape in (con.ghost_vars or {}).items():
            st.ghost[gname] = ListV([]) if isinstance(gshape, TSeq) else 0
        argmap = dict(env)
        if con.requires_node is not None:
            pre = E.eval_spec(con.requires_node, con, argmap, st)
            st = st.assume(ops._tb(truth(pre)))
        # cover: the precondition is satisfiable
        s = z3.Solver()
        s.set("timeout", 10000)
        s.add(*st.pc)
        cov = s.check()
        res.covers.append({"name": con.name + "#cover:requires", "sat": str(cov)})
        if cov == z3.unsat:
            res.error, res.error_kind = "precondition unsatisfiable (vacuous contract)", "crash"
            return res
        main_fv = FuncV(con.node, con.mod, cls=con.clsnode, qual=con.short)
        deco = E.decorated(main_fv, st) if con.clsnode is not None or con.node.decorator_list else main_fv
        if deco is not main_fv:
            # the function under contract is wrapped by behavioural decorators: verify what runs
            a = con.node.args
            pos = [env[p.arg] for p in a.posonlyargs + a.args]
            E.fn_stack = [None]
            st_call = State(dict(env), st.pc, None, st.trace, st.rand, st.ghost)
            fake = ast.Call(func=ast.Name(id="__main__", ctx=ast.Load()),
                            args=[ast.Name(id=p.arg, ctx=ast.Load()) for p in a.posonlyargs + a.args], keywords=[])
            ast.fix_missing_locations(fake)
            outs = E.call_function(deco, pos, {p.arg: env[p.arg] for p in a.kwonlyargs}, st_call, fake)
            outcomes = []
            for s_o, v_o in outs:
                s_o = s_o.copy()
                # the final value of `self` is what the wrapper's own parameter ended with
                if isinstance(v_o, Raised):
                    outcomes.append(("raise", s_o, v_o.exc))
                else:
                    outcomes.append(("return", s_o, v_o))
        else:
            outcomes = E.exec_block(con.node.body, st)
        res.paths = len(outcomes)
        n_ret = 0
        reach = {"return": 0, "raise": 0}
        for kind, s_out, val in outcomes:
            if kind in ("break", "continue"):
                raise EngineError("break/continue outside loop")
            if kind == "raise":
                reach["raise"] += 1
                exc = val
                label = exc.cls
                if exc.cls in con.raises_nodes:
                    rn = con.raises_nodes[exc.cls]
                    if rn is None:
                        goal = True
                    else:
                        amap = dict(argmap)
                        amap.update({"exc_args": tuple(exc.args)})
                        for an, av in getattr(exc, "attrs", {}).items():
                            amap["exc_" + an] = av          # attributes a handler assigned to the exception (`exc.chip = chip`)
                        for p in names:
                            if p not in _rebound_params(con.node):
                                amap[p + "_post"] = s_out.env.get(p)
                        amap["_trace"] = s_out.trace
                        for ln, lv in s_out.env.items():
                            if not ln.startswith("__"):
                                amap.setdefault("local_" + ln, lv)
                        for gn, gv in s_out.ghost.items():
                            if not gn.startswith("_"):
                                amap.setdefault(gn, gv)
                        goal = ops._tb(truth(E.eval_spec(rn, con, _select(rn, amap), s_out)))
                    ob = _mk(E, s_out, "raise", None, goal, con, "raise/" + label, env)
                else:
                    ob = _mk(E, s_out, "raise", None, False, con, "undeclared/" + label, env)
                continue
            reach["return"] += 1
            result = val if kind == "return" else NONE
            if is_gen:
                result = s_out.yielded
            rs = con.__dict__.get("result_shape")
            if isinstance(rs, TSeq) and isinstance(result, (ListV, tuple)):
                items = result.items if isinstance(result, ListV) else result
                result = seqs.to_seq(ListV(items), rs.elem) if items else SeqV(0, rs.elem, [z3.K(z3.IntSort(), _dflt(l)) for l in shape_leaves(rs.elem)], rs.kind)
            amap = dict(argmap)
            for p_, v_ in argmap.items():
                amap["old_" + p_] = v_
            amap["result"] = result
            for p in names:
                if p not in _rebound_params(con.node):
                    # (for a parameter the function re-binds, the final local value says nothing about the caller's object)
                    amap[p + "_post"] = s_out.env.get(p)
            for ln, lv in s_out.env.items():
                if not ln.startswith("__"):
                    amap.setdefault("local_" + ln, lv)
            for gn, gv in s_out.ghost.items():
                if not gn.startswith("_"):
                    amap.setdefault(gn, gv)
            amap["_trace"] = s_out.trace
            amap["_yielded"] = s_out.yielded
            amap["_rand"] = tuple(v for _, v in s_out.rand)
            for label, en in con.ensures_nodes:
                goal = E.eval_spec(en, con, _select(en, amap), s_out)
                _mk(E, s_out, "post", None, ops._tb(truth(goal)) if not isinstance(goal, bool) else goal, con, "post/" + label, env)
        res.notes = list(E.notes)
        for text in (con.options.get("abstracted") or {}):
            if text not in E._abstract_hits:
                raise EngineError("abstracted statement no longer exists: %r" % text)
        for text in list(con.ghost_asserts or {}) + list(con.ghost_updates or {}):
            if text not in E._ghost_hits:
                raise EngineError("ghost assertion anchored on a statement that no longer exists: %r" % text)
        if reach["return"] == 0 and con.ensures_nodes:
            res.notes.append("no normal return path is feasible")
    except EngineError as e:
        res.error, res.error_kind = str(e), "subset"
        res.seconds = time.time() - t0
        return res
    except (AttributeError, TypeError, KeyError, IndexError, NotImplementedError, ValueError, z3.Z3Exception) as e:
        # the symbolic executor tripped over a value it does not model while running the code under contract (e.g. a slice of a
        # function object in changed code): that code is outside the verified subset - the bounded layer decides -, not a
        # verdict and not a reason to stop the whole check.  (On the unchanged tree such a demotion shows as obligations of the
        # lock file that are no longer generated.)
        tb = traceback.extract_tb(e.__traceback__)
        if tb and "/pyvc/" in (tb[-1].filename or ""):
            res.error, res.error_kind = "engine cannot model this code (internal %s: %s at %s:%d)" % (
                type(e).__name__, str(e)[:120], os.path.basename(tb[-1].filename), tb[-1].lineno), "subset"
        else:
            res.error, res.error_kind = traceback.format_exc(), "crash"
        res.seconds = time.time() - t0
        return res
    except Exception:
        res.error, res.error_kind = traceback.format_exc(), "crash"
        res.seconds = time.time() - t0
        return res
    # discharge
    counts = {}
    for ob in E.obligations:
        idx = counts.get(ob.name, 0)
        counts[ob.name] = idx + 1
        status = None
        dt0 = 0.0
        goal_qf = isinstance(ob.goal, bool) or not ops.has_quantifier(ob.goal)
        if goal_qf and ob.kind in ("ghost", "safe", "call-pre", "unwind") and any(ops.has_quantifier(p) for p in ob.pc):
            # first from the quantifier-free part of the path condition alone (fewer hypotheses: a proof stays a proof;
            # anything else is decided from the full path condition below)
            st1, _m, be1, dt0 = check_formula([p for p in ob.pc if not ops.has_quantifier(p)], ob.goal, min(timeout, int(os.environ.get("VERIF_QF_MS", "20000"))), want_model=False, tier="quick")
            if st1 == "proved":
                status, model, backend, dt = st1, None, be1, dt0
        if status is None:
            status, model, backend, dt = check_formula(ob.pc, ob.goal, timeout, tier=tier)
            dt += dt0
        d = {"name": ob.name, "instance": idx, "kind": ob.kind, "line": ob.lineno, "text": ob.text,
             "status": status, "backend": backend, "seconds": round(dt, 4)}
        res.solver_seconds += dt
        if status == "refuted":
            inp = getattr(ob, "inputs", None) or env
            try:
                d["inputs"] = jsonable({k: concretize(v, model) for k, v in inp.items() if not k.startswith("__")})
                d["rand"] = jsonable([(k, concretize(v, model)) for k, v in getattr(ob, "rand", ())])
            except Exception as e:
                d["inputs_error"] = repr(e)
            d["inductive"] = ob.kind in ("inv-keep", "variant") or bool(ob.extra.get("inductive"))
        if status != "proved":
            d["goal"] = str(ob.goal)[:600]
        res.obligations.append(d)
    res.solver_seconds += E.solver_seconds
    res.seconds = time.time() - t0
    changes = list(getattr(E, "header_changes", None) or [])
    if getattr(con, "head_changed", None):
        changes.insert(0, con.head_changed)
    if changes:
        res.tentative = "; ".join(changes)
        res.notes.append("tentative: " + res.tentative)
    return res


def _dflt(l):
    from .values import default_leaf
    return default_leaf(l)


def _select(fnode, amap):
    return amap


def _mk(E, st, kind, node, goal, con, label, env):
    name = "%s#%s" % (con.name, label)
    from .engine import Obligation
    ob = Obligation(name, kind, st.pc, goal, con.node.lineno, "", con.target)
    ob.inputs = env
    ob.rand = st.rand
    E.obligations.append(ob)
    return ob


def verify_lemma(lem, tier="quick"):
    res = FnResult("lemma::" + lem.name)
    t0 = time.time()
    timeout = QUICK_TIMEOUT_MS if tier == "quick" else THOROUGH_TIMEOUT_MS
    try:
        lem.bind()
        res.file = lem.spec_mod.path
        E = Engine(lem.spec_mod, None, None, lem.target, lem.spec_mod, {}, bv=lem.bv, options=dict(lem.options, contract=lem))
        env, facts = {}, []
        for n, sh in lem.params.items():
            v, f = fresh(sh, n)
            env[n] = v
            facts.extend(f)
        st = State(dict(env), facts)
        if lem.assuming_node is not None:
            pre = E.eval_spec(lem.assuming_node, lem, env, st)
            st = st.assume(ops._tb(truth(pre)))
        s = z3.Solver()
        s.set("timeout", 10000)
        s.add(*st.pc)
        cov = s.check()
        res.covers.append({"name": lem.target + "#cover:assuming", "sat": str(cov)})
        if cov == z3.unsat:
            res.error, res.error_kind = "lemma hypotheses unsatisfiable (vacuous)", "crash"
            return res
        for label, cn in lem.claims:
            goal = E.eval_spec(cn, lem, env, st)
            status, model, backend, dt = check_formula(st.pc, ops._tb(truth(goal)) if not isinstance(goal, bool) else goal, timeout)
            d = {"name": "%s#lemma/%s" % (lem.target, label), "instance": 0, "kind": "lemma", "line": cn.lineno,
                 "text": "", "status": status, "backend": backend, "seconds": round(dt, 4)}
            res.solver_seconds += dt
            if status == "refuted":
                d["inputs"] = jsonable({k: concretize(v, model) for k, v in env.items()})
                d["inductive"] = False
            if status != "proved":
                d["goal"] = str(goal)[:600]
            res.obligations.append(d)
    except EngineError as e:
        res.error, res.error_kind = str(e), "subset"
    except Exception:
        res.error, res.error_kind = traceback.format_exc(), "crash"
    res.seconds = time.time() - t0
    return res


def verify_frame(fr, tier="quick"):
    """discharge the obligations of a frame contract with the effect analysis of pyvc.frames"""
    from . import frames
    import sys as _sys
    res = FnResult(fr.target)
    t0 = time.time()
    old = _sys.getrecursionlimit()
    _sys.setrecursionlimit(max(old, 10000))
    try:
        r = frames.check_frame(fr.target_fn, modifies=fr.modifies, types=fr.types, values=fr.values, use_defaults=fr.use_defaults)
        res.file, res.lineno, res.sha = r["file"], r["line"], r["sha"]
        res.paths = len(r["functions"])
        if r["error"]:
            res.error, res.error_kind = "frame analysis: " + r["error"], "subset"
            return res
        res.assumptions = list(fr.assumptions) + ["frame analysis of %s: %s" % (fr.target_fn.split("::")[1], a) for a in r["assumed"]]
        if r["global_writes"]:
            res.notes.append("module-level state written (memo / registry): " + "; ".join(sorted(set("%s at %s:%d" % (g[0][7:], g[1], g[2]) for g in r["global_writes"]))[:6]))
        dt = time.time() - t0
        checked = [p for p in r["params"] if p not in fr.modifies]
        n = max(1, len(checked) + 1)
        for p in checked:
            recs = r["effects"].get(p, [])
            d = {"name": "%s#frame/%s_unchanged" % (fr.target, p), "instance": 0, "kind": "frame", "line": r["line"], "text": "",
                 "status": "refuted" if recs else "proved", "backend": "frames", "seconds": round(dt / n, 4)}
            if recs:
                d["witness"] = ["%s:%d %s   [reached via %s]" % (x[0], x[1], x[2], x[3]) for x in recs[:8]]
                d["inductive"] = False
            res.obligations.append(d)
        drecs = []
        for root, recs in r["effects"].items():
            if root.startswith("default:"):
                drecs.extend(["mutable default argument %s: %s:%d %s   [reached via %s]" % (root[8:], x[0], x[1], x[2], x[3]) for x in recs[:4]])
        d = {"name": "%s#frame/mutable_default_arguments_unchanged" % fr.target, "instance": 0, "kind": "frame", "line": r["line"], "text": "",
             "status": "refuted" if drecs else "proved", "backend": "frames", "seconds": round(dt / n, 4)}
        if drecs:
            d["witness"] = drecs[:8]
        res.obligations.append(d)
        if fr.globals_unchanged:
            grecs = ["%s: %s:%d %s   [reached via %s]" % (g[0][7:], g[1], g[2], g[3], g[4]) for g in r["global_writes"] if len(g) > 5 and g[5]]
            d = {"name": "%s#frame/objects_taken_from_module_level_state_unchanged" % fr.target, "instance": 0, "kind": "frame", "line": r["line"], "text": "",
                 "status": "refuted" if grecs else "proved", "backend": "frames", "seconds": round(dt / n, 4)}
            if grecs:
                d["witness"] = grecs[:8]
            res.obligations.append(d)
        for variant, defaults in ((("", ()),) + ((("_with_default_arguments", tuple(fr.use_defaults)),) if fr.use_defaults else ())) if fr.owned else ():
            o = frames.check_owned(fr.target_fn, fr.owned, use_defaults=defaults)
            if o["error"]:
                res.error, res.error_kind = "frame analysis: " + o["error"], "subset"
                return res
            for attr in fr.owned:
                bad = o["shared"].get(attr)
                d = {"name": "%s#frame/new_object_owns_%s%s" % (fr.target, attr.lstrip("_"), variant), "instance": 0, "kind": "frame", "line": r["line"], "text": "",
                     "status": "refuted" if (bad or attr in o["missing"]) else "proved", "backend": "frames", "seconds": 0.0}
                if bad:
                    d["witness"] = ["the object stored in .%s may be %s itself (not a copy): a later change through the new object changes it" % (
                        attr, ", ".join("the argument " + b if ":" not in b else b for b in bad))]
                elif attr in o["missing"]:
                    d["witness"] = ["attribute .%s is not assigned by the constructor" % attr]
                res.obligations.append(d)
        res.notes.append("functions analysed (callees inlined): %d" % len(r["functions"]))
    except KeyError as e:
        res.error, res.error_kind = "frame target not found: %s" % e, "subset"
    except Exception:
        res.error, res.error_kind = traceback.format_exc(), "crash"
    finally:
        _sys.setrecursionlimit(old)
    res.seconds = time.time() - t0
    return res
