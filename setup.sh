#!/bin/bash
# Build the overlay venv used by every check: /venv's Python 3.12 + the repository's own
# dependencies (through a .pth that adds /venv's site-packages) + z3-solver, cvc5,
# crosshair-tool, deal, icontract, jsonschema from the offline wheelhouse.  Idempotent.
set -e
cd "$(dirname "$0")"
V=.venv
if [ -x $V/bin/python ] && $V/bin/python -c "import z3, cvc5, jsonschema, six, sentinel" 2>/dev/null; then
  exit 0
fi
rm -rf $V
/venv/bin/python -m venv $V
PIP_NO_INDEX=1 $V/bin/pip install -q --no-index --find-links /opt/veriftools/wheels \
    z3-solver cvc5 crosshair-tool deal icontract jsonschema >/dev/null
SP=$($V/bin/python -c "import sysconfig;print(sysconfig.get_paths()['purelib'])")
echo "import site; site.addsitedir('/venv/lib/python3.12/site-packages')" > "$SP/zz_repo_deps.pth"
$V/bin/python -c "import z3, cvc5, jsonschema, six, sentinel, numpy; print('overlay venv ok', z3.get_version_string())"
