"""Functions with KNOWN effects for the self-test of the frame analysis (bounded/frames_selftest.py).  `# MUTATES: a, b` on the
def line names the parameters the function modifies (deeply); every other parameter is left unchanged."""
import copy
import heapq
from collections import deque, defaultdict


class Box(object):
    def __init__(self, items=None):
        self.items = items if items is not None else []

    def put(self, x):
        self.items.append(x)

    def copy(self):
        return Box(list(self.items))


def pure_read(a, b):  # MUTATES:
    return [x for x in a if x in b] + [len(b)]


def direct_append(a, b):  # MUTATES: a
    a.append(b)


def via_alias(a, b):  # MUTATES: a
    c = a
    c[0] = b


def via_copy(a, b):  # MUTATES:
    c = list(a)
    c.append(b)
    c[0] = 1
    return c


def element_of_copy(a, b):  # MUTATES: a
    c = list(a)
    c[0].append(b)          # the copy is shallow: its elements are a's elements


def deep_copy(a, b):  # MUTATES:
    c = copy.deepcopy(a)
    c[0].append(b)
    return c


def through_callee(a, b):  # MUTATES: a
    direct_append(a, b)


def through_callee_copy(a, b):  # MUTATES:
    direct_append(list(a), b)


def dict_values(a, b):  # MUTATES: a
    for k, v in a.items():
        v.add(b)


def dict_copy_then_set(a, b):  # MUTATES:
    a = a.copy()
    a["k"] = b
    return a


def augmented(a, b):  # MUTATES: a
    a["k"] -= b


def flag_guarded(a, b):  # MUTATES:
    out = []
    for item in a:
        changed = False
        if b in item:
            changed = True
            item = list(item)
        if changed:
            item.append(b)
        out.append(item)
    return out


def flag_guarded_wrong(a, b):  # MUTATES: a
    out = []
    for item in a:
        changed = False
        if b in item:
            changed = True
        if changed:
            item.append(b)
        out.append(item)
    return out


def default_arg(a, memo={}):  # MUTATES: memo
    memo[a] = 1
    return memo


def default_arg_copied(a, memo={}):  # MUTATES:
    memo = dict(memo)
    memo[a] = 1
    return memo


def object_method(a, b):  # MUTATES: a
    box = Box(a)            # keeps a reference to a
    box.put(b)


def object_copy_method(a, b):  # MUTATES:
    box = Box(a).copy()
    box.put(b)
    return box


def nested_function(a, b):  # MUTATES: a
    def helper(x):
        x.append(b)
    helper(a)


def nested_closure(a, b):  # MUTATES: a
    def helper():
        a.append(b)
    helper()


def heap_ops(a, b):  # MUTATES: a
    heapq.heappush(a, b)


def queue_of_new_nodes(a, b):  # MUTATES:
    root = Box()
    todo = deque([(None, root)])
    while todo:
        parent, node = todo.popleft()
        if parent is not None:
            parent.put(node)
        for x in a:
            if x == b:
                todo.append((node, Box([x])))
    return root


def early_return(a, b):  # MUTATES:
    if b:
        return a
    c = {}
    c[1] = a
    return c


def setdefault_on_arg(a, b):  # MUTATES: a
    a.setdefault(b, []).append(1)


def defaultdict_local(a, b):  # MUTATES:
    d = defaultdict(list)
    for x in a:
        d[x].append(b)
    return d


def swap_in_param_list(a, b):  # MUTATES: a
    a[0], a[1] = a[1], a[0]


def del_item(a, b):  # MUTATES: a
    del a[b]


def sort_copy(a, b):  # MUTATES:
    return sorted(a, key=lambda x: x[0])


def sort_in_place(a, b):  # MUTATES: a
    a.sort()


def calls_default_arg(a, b):  # MUTATES: default
    return default_arg(b)       # the callee's mutable default argument is modified


def calls_default_arg_copied(a, b):  # MUTATES:
    return default_arg_copied(b)


class Cached(object):
    def __init__(self):
        self.memo = None

    def value(self):
        if self.memo is None:
            self.memo = [1]
        return self.memo


def lazily_cached_attribute(a, b):  # MUTATES: a
    if a.memo is None:          # (an attribute of an argument may be None)
        a.memo = b
    return a.memo


def optional_argument(a, b=None):  # MUTATES: a, b
    if b is None:
        b = a
    b.append(1)


# ---- ownership samples (check_owned): `# SHARES: attr, ...` lists the attributes whose object may be the caller's own
class KeepsCopies(object):  # SHARES:
    def __init__(self, args, hooks=()):
        self.args = dict(args)
        self.hooks = list(hooks)


class KeepsGiven(object):  # SHARES: args
    def __init__(self, args, hooks=()):
        self.args = args
        self.hooks = list()


class KeepsGivenUnlessEmpty(object):  # SHARES: args
    def __init__(self, args, hooks=()):
        self.args = args or {}
        self.hooks = [h for h in hooks]


class KeepsGivenOnOnePath(object):  # SHARES: hooks
    def __init__(self, args, hooks=None):
        self.args = {k: v for k, v in args.items()}
        if hooks is None:
            hooks = []
        self.hooks = hooks


class CopiesInHelper(object):  # SHARES:
    def __init__(self, args, hooks=()):
        self._set(args)
        self.hooks = sorted(hooks)

    def _set(self, a):
        self.args = a.copy()
