"""C01 -- the glue of the pipeline: what the (deprecated) `wrapper` hands from one stage to the next.  The stages themselves are the
other properties' (C02 placement, C05 allocation, C03 routing, C10 tables); here they are opaque callables whose calls are recorded."""
from pyvc.spec import contract
from pyvc.values import TInt, TBool, TRec, TList, TConst, ListV, ObjV, NONE


def _O(name):
    return TRec(name, ident=TInt(0, 99))


_STAGE_PARAMS = {
    "place": ("vertices_resources", "nets", "machine", "constraints"),
    "allocate": ("vertices_resources", "nets", "machine", "constraints", "placements"),
    "route": ("vertices_resources", "nets", "machine", "constraints", "placements", "allocations", "core_resource"),
    "application_map": ("vertices_applications", "placements", "allocations", "core_resource"),
    "routing_tables": ("routes", "net_keys"),
    "tables": ("routes", "net_keys"),
    "machine": ("system_info", "core_resource", "sdram_resource", "sram_resource"),
    "core_constraints": ("system_info", "core_resource"),
    "targets": ("system_info",),
    "minimised": ("routing_tables", "target_lengths", "methods"),
}


def _by_name(tag, args, kwargs):
    """the arguments of a recorded call BY PARAMETER NAME (whether the code passes them by position or by keyword is its business)"""
    names = _STAGE_PARAMS[tag]
    if len(args) > len(names):
        raise ValueError("more positional arguments than %s takes" % tag)
    d = dict(zip(names, args))
    for k, v in kwargs.items():
        if k in d:
            raise ValueError("argument %s given twice" % k)
        d[k] = v
    return tuple(sorted(d.items()))


def _stage(tag, ident):
    def handler(E, obj, args, kwargs, st, node):
        s = st.copy()
        s.trace = ListV(s.trace.items + ((tag, _by_name(tag, args, kwargs)),))
        return [(s, ObjV(tag.capitalize() + "Result", {"ident": ident}), None)]
    return handler


def _fn(tag, ident):
    def handler(E, args, kwargs, st, node):
        s = st.copy()
        s.trace = ListV(s.trace.items + ((tag, _by_name(tag, args, kwargs)),))
        return [(s, ObjV(tag.capitalize() + "Result", {"ident": ident}))]
    return handler


def _arg(call, name):
    for k, v in call[1]:
        if k == name:
            return v
    return None


def _nargs(call):
    return len(call[1])


def _mk_constraint(kind):
    # (the constraint list handed to the stages is compared as a COLLECTION: the statement fixes no order among constraints)
    def handler(E, args, kwargs, st, node):
        if kind == "Reserve":
            f = {"ident": 80, "resource": args[0], "lo": args[1].fields["start"], "hi": args[1].fields["stop"], "amount": 0}
        else:
            f = {"ident": 81, "resource": args[0], "lo": 0, "hi": 0, "amount": args[1]}
        return [(st, ObjV("Constraint", f))]
    return handler


_CONSTRAINT = TRec("Constraint", ident=TInt(0, 9), resource=TRec("Resource", ident=TInt(0, 99)), lo=TInt(), hi=TInt(), amount=TInt())


def _stages_ok(_trace, n, vertices_resources, vertices_applications, nets, net_keys, machine, core_resource, result):
    p, a, r, m, t = _trace[0], _trace[1], _trace[2], _trace[3], _trace[4]
    return (len(_trace) == 5 and p[0] == "place" and a[0] == "allocate" and r[0] == "route" and m[0] == "application_map" and t[0] == "routing_tables"
            and len(_arg(p, "constraints")) == n and len(_arg(a, "constraints")) == n and len(_arg(r, "constraints")) == n
            and _arg(p, "vertices_resources").ident == vertices_resources.ident and _arg(p, "nets").ident == nets.ident
            and _arg(p, "machine").ident == machine.ident and _nargs(p) == 4
            and _arg(a, "vertices_resources").ident == vertices_resources.ident and _arg(a, "machine").ident == machine.ident
            and _arg(a, "placements").ident == 1 and _nargs(a) == 5
            and _arg(r, "vertices_resources").ident == vertices_resources.ident and _arg(r, "nets").ident == nets.ident
            and _arg(r, "machine").ident == machine.ident and _arg(r, "placements").ident == 1 and _arg(r, "allocations").ident == 2
            and _arg(r, "core_resource").ident == core_resource.ident and _nargs(r) == 7
            and _arg(m, "vertices_applications").ident == vertices_applications.ident and _arg(m, "placements").ident == 1
            and _arg(m, "allocations").ident == 2 and _arg(m, "core_resource").ident == core_resource.ident
            and _arg(t, "routes").ident == 3 and _arg(t, "net_keys").ident == net_keys.ident
            and result[0].ident == 1 and result[1].ident == 2 and result[2].ident == 4 and result[3].ident == 5)


_PARAMS = dict(vertices_resources=_O("VR"), vertices_applications=_O("VA"), nets=_O("Nets"), net_keys=_O("Keys"), machine=_O("Machine"),
               constraints=TList(_CONSTRAINT), place=_O("Placer"), allocate=_O("Allocator"), route=_O("Router"),
               core_resource=_O("Resource"), sdram_resource=_O("Resource"))
_EXT = {"Placer.__call__": _stage("place", 1), "Allocator.__call__": _stage("allocate", 2), "Router.__call__": _stage("route", 3),
        "def:build_application_map": _fn("application_map", 4), "def:build_routing_tables": _fn("routing_tables", 5),
        "class:ReserveResourceConstraint": _mk_constraint("Reserve"), "class:AlignResourceConstraint": _mk_constraint("Align")}
_ASSUME = ["the three stages and the two builders are opaque and recorded (their own properties decide what they return); keyword "
           "arguments of the stages: the wrapper's own defaults (empty)"]


@contract("rig/place_and_route/wrapper.py::wrapper", variant="with_monitor_and_alignment")
class WrapperHandsOn:
    """the deprecated wrapper as it is normally called: placement, allocation and routing all see the SAME graph, machine and
    constraint list - the caller's constraints together with the monitor reservation (core 0 of the resource the caller names as
    cores) and the SDRAM alignment (4 bytes, of the resource the caller names as SDRAM) -; allocation gets the placements just made,
    routing the placements and allocations just made and the caller's core resource (positionally, nothing from an earlier call);
    the application map and the tables are built from those results.  (That the caller's own constraint list and the shared
    default arguments are not touched is the frame contract of C17.)"""
    properties = ("C01",)
    params = dict(_PARAMS, reserve_monitor=TConst(True), align_sdram=TConst(True))
    externals = _EXT
    options = {"no_merge": True}
    assumptions = _ASSUME

    def native(x):
        raise __import__("pyvc.replay", fromlist=["OutsideHarness"]).OutsideHarness()

    def ensures_every_stage_sees_the_same_problem_and_the_results_of_the_stages_before(
            vertices_resources, vertices_applications, nets, net_keys, machine, constraints, core_resource, sdram_resource, result, _trace):
        cons = _arg(_trace[0], "constraints")
        return (_stages_ok(_trace, 3, vertices_resources, vertices_applications, nets, net_keys, machine, core_resource, result)
                and any(c.ident == constraints[0].ident for c in cons)
                and any(c.ident == 80 and c.resource.ident == core_resource.ident and c.lo == 0 and c.hi == 1 for c in cons)
                and any(c.ident == 81 and c.resource.ident == sdram_resource.ident and c.amount == 4 for c in cons))


@contract("rig/place_and_route/wrapper.py::wrapper", variant="constraints_as_given")
class WrapperHandsOnPlain:
    """... and with both conveniences switched off the stages see exactly the caller's constraints"""
    properties = ("C01",)
    params = dict(_PARAMS, reserve_monitor=TConst(False), align_sdram=TConst(False))
    externals = _EXT
    options = {"no_merge": True}
    assumptions = _ASSUME

    def native(x):
        raise __import__("pyvc.replay", fromlist=["OutsideHarness"]).OutsideHarness()

    def ensures_every_stage_sees_the_same_problem_and_the_results_of_the_stages_before(
            vertices_resources, vertices_applications, nets, net_keys, machine, constraints, core_resource, result, _trace):
        return (_stages_ok(_trace, 1, vertices_resources, vertices_applications, nets, net_keys, machine, core_resource, result)
                and _arg(_trace[0], "constraints")[0].ident == constraints[0].ident)


# ---- place_and_route_wrapper: from a probed machine to tables ------------------------------------------------------------------------------
_EXT2 = {"Placer.__call__": _stage("place", 1), "Allocator.__call__": _stage("allocate", 2), "Router.__call__": _stage("route", 3),
         "def:build_application_map": _fn("application_map", 4), "def:routing_tree_to_tables": _fn("tables", 5),
         "def:build_machine": _fn("machine", 6), "def:build_routing_table_target_lengths": _fn("targets", 8),
         "def:minimise_tables": _fn("minimised", 9)}


def _core_constraints(E, args, kwargs, st, node):
    s = st.copy()
    s.trace = ListV(s.trace.items + (("core_constraints", _by_name("core_constraints", args, kwargs)),))
    res_ = args[1] if len(args) > 1 else kwargs["core_resource"]
    mk = lambda i: ObjV("Constraint", {"ident": i, "resource": res_, "lo": 0, "hi": 1, "amount": 0})     # noqa: E731
    return [(s, ListV((mk(70), mk(71))))]


@contract("rig/place_and_route/wrapper.py::place_and_route_wrapper")
class PlaceAndRouteWrapperHandsOn:
    """the machine model and the core reservations are built from the SAME probe result with the caller's resource names; every stage
    sees that machine and the reservations TOGETHER WITH the caller's constraints (one list, the same for all three); allocation gets the placements just made, routing the
    placements and allocations just made and the caller's core resource; the tables are made from exactly those routes and the
    caller's keys and minimised towards the table sizes of the same probe result with the methods given; what is returned are the
    placements, the allocations, the application map of exactly those, and the minimised tables"""
    properties = ("C01", "C14")
    params = dict(vertices_resources=_O("VR"), vertices_applications=_O("VA"), nets=_O("Nets"), net_keys=_O("Keys"), system_info=_O("SystemInfo"),
                  constraints=TList(_CONSTRAINT), place=_O("Placer"), allocate=_O("Allocator"), route=_O("Router"),
                  minimise_tables_methods=_O("Methods"), core_resource=_O("Resource"), sdram_resource=_O("Resource"), sram_resource=_O("Resource"))
    externals = dict(_EXT2, **{"def:build_core_constraints": _core_constraints})
    options = {"no_merge": True}
    assumptions = ["every stage and builder is opaque and recorded (their own properties decide what they return); the stages' keyword "
                   "arguments: the wrapper's own defaults (empty)"]

    def native(x):
        raise __import__("pyvc.replay", fromlist=["OutsideHarness"]).OutsideHarness()

    def ensures_one_probe_result_one_problem_and_each_stage_fed_by_the_one_before(
            vertices_resources, vertices_applications, nets, net_keys, system_info, constraints, minimise_tables_methods, core_resource,
            sdram_resource, sram_resource, result, _trace):
        t = _trace
        cons = _arg(t[2], "constraints")
        return (len(t) == 9 and [c[0] for c in t] == ["machine", "core_constraints", "place", "allocate", "route", "application_map", "tables",
                                                     "targets", "minimised"]
                and _arg(t[0], "system_info").ident == system_info.ident and _arg(t[0], "core_resource").ident == core_resource.ident
                and _arg(t[0], "sdram_resource").ident == sdram_resource.ident and _arg(t[0], "sram_resource").ident == sram_resource.ident
                and _arg(t[1], "system_info").ident == system_info.ident and _arg(t[1], "core_resource").ident == core_resource.ident
                and _arg(t[2], "vertices_resources").ident == vertices_resources.ident and _arg(t[2], "nets").ident == nets.ident
                and _arg(t[2], "machine").ident == 6 and _nargs(t[2]) == 4
                and len(cons) == 3 and any(c.ident == 70 for c in cons) and any(c.ident == 71 for c in cons)
                and any(c.ident == constraints[0].ident for c in cons)
                and _arg(t[3], "vertices_resources").ident == vertices_resources.ident and _arg(t[3], "machine").ident == 6
                and len(_arg(t[3], "constraints")) == 3 and _arg(t[3], "placements").ident == 1 and _nargs(t[3]) == 5
                and _arg(t[4], "vertices_resources").ident == vertices_resources.ident and _arg(t[4], "nets").ident == nets.ident
                and _arg(t[4], "machine").ident == 6 and len(_arg(t[4], "constraints")) == 3 and _arg(t[4], "placements").ident == 1
                and _arg(t[4], "allocations").ident == 2 and _arg(t[4], "core_resource").ident == core_resource.ident and _nargs(t[4]) == 7
                and _arg(t[5], "vertices_applications").ident == vertices_applications.ident and _arg(t[5], "placements").ident == 1
                and _arg(t[5], "allocations").ident == 2 and _arg(t[5], "core_resource").ident == core_resource.ident
                and _arg(t[6], "routes").ident == 3 and _arg(t[6], "net_keys").ident == net_keys.ident
                and _arg(t[7], "system_info").ident == system_info.ident
                and _arg(t[8], "routing_tables").ident == 5 and _arg(t[8], "target_lengths").ident == 8
                and _arg(t[8], "methods").ident == minimise_tables_methods.ident
                and result[0].ident == 1 and result[1].ident == 2 and result[2].ident == 4 and result[3].ident == 9)
