"""C01 -- the glue of the pipeline: what the (deprecated) `wrapper` hands from one stage to the next.  The stages themselves are the
other properties' (C02 placement, C05 allocation, C03 routing, C10 tables); here they are opaque callables whose calls are recorded."""
from pyvc.spec import contract
from pyvc.values import TInt, TBool, TRec, TList, TConst, ListV, ObjV, NONE


def _O(name):
    return TRec(name, ident=TInt(0, 99))


def _stage(tag, ident):
    def handler(E, obj, args, kwargs, st, node):
        s = st.copy()
        s.trace = ListV(s.trace.items + ((tag, tuple(args), tuple(sorted(kwargs.items()))),))
        return [(s, ObjV(tag.capitalize() + "Result", {"ident": ident}), None)]
    return handler


def _fn(tag, ident):
    def handler(E, args, kwargs, st, node):
        s = st.copy()
        s.trace = ListV(s.trace.items + ((tag, tuple(args), tuple(sorted(kwargs.items()))),))
        return [(s, ObjV(tag.capitalize() + "Result", {"ident": ident}))]
    return handler


def _mk_constraint(kind):
    # (the constraint list handed to the stages is compared as a COLLECTION: the statement fixes no order among constraints)
    def handler(E, args, kwargs, st, node):
        if kind == "Reserve":
            f = {"ident": 80, "resource": args[0], "lo": args[1].fields["start"], "hi": args[1].fields["stop"], "amount": 0}
        else:
            f = {"ident": 81, "resource": args[0], "lo": 0, "hi": 0, "amount": args[1]}
        return [(st, ObjV("Constraint", f))]
    return handler


_CONSTRAINT = TRec("Constraint", ident=TInt(0, 9), resource=TRec("Resource", ident=TInt(0, 99)), lo=TInt(), hi=TInt(), amount=TInt())


def _stages_ok(_trace, n, vertices_resources, vertices_applications, nets, net_keys, machine, core_resource, result):
    return (len(_trace) == 5 and _trace[0][0] == "place" and _trace[1][0] == "allocate" and _trace[2][0] == "route"
            and len(_trace[0][1][3]) == n
            and _trace[0][1][0].ident == vertices_resources.ident and _trace[0][1][1].ident == nets.ident and _trace[0][1][2].ident == machine.ident
            and _trace[1][1][0].ident == vertices_resources.ident and _trace[1][1][2].ident == machine.ident and len(_trace[1][1][3]) == n
            and _trace[1][1][4].ident == 1
            and _trace[2][1][0].ident == vertices_resources.ident and _trace[2][1][1].ident == nets.ident and _trace[2][1][2].ident == machine.ident
            and len(_trace[2][1][3]) == n and _trace[2][1][4].ident == 1 and _trace[2][1][5].ident == 2
            and _trace[2][1][6].ident == core_resource.ident and len(_trace[2][1]) == 7 and len(_trace[2][2]) == 0
            and _trace[3][0] == "application_map" and _trace[3][1][0].ident == vertices_applications.ident and _trace[3][1][1].ident == 1
            and _trace[3][1][2].ident == 2 and _trace[3][1][3].ident == core_resource.ident
            and _trace[4][0] == "routing_tables" and _trace[4][1][0].ident == 3 and _trace[4][1][1].ident == net_keys.ident
            and result[0].ident == 1 and result[1].ident == 2 and result[2].ident == 4 and result[3].ident == 5)


_PARAMS = dict(vertices_resources=_O("VR"), vertices_applications=_O("VA"), nets=_O("Nets"), net_keys=_O("Keys"), machine=_O("Machine"),
               constraints=TList(_CONSTRAINT), place=_O("Placer"), allocate=_O("Allocator"), route=_O("Router"),
               core_resource=_O("Resource"), sdram_resource=_O("Resource"))
_EXT = {"Placer.__call__": _stage("place", 1), "Allocator.__call__": _stage("allocate", 2), "Router.__call__": _stage("route", 3),
        "def:build_application_map": _fn("application_map", 4), "def:build_routing_tables": _fn("routing_tables", 5),
        "class:ReserveResourceConstraint": _mk_constraint("Reserve"), "class:AlignResourceConstraint": _mk_constraint("Align")}
_ASSUME = ["the three stages and the two builders are opaque and recorded (their own properties decide what they return); keyword "
           "arguments of the stages: the wrapper's own defaults (empty)"]


@contract("rig/place_and_route/wrapper.py::wrapper", variant="with_monitor_and_alignment")
class WrapperHandsOn:
    """the deprecated wrapper as it is normally called: placement, allocation and routing all see the SAME graph, machine and
    constraint list - the caller's constraints together with the monitor reservation (core 0 of the resource the caller names as
    cores) and the SDRAM alignment (4 bytes, of the resource the caller names as SDRAM) -; allocation gets the placements just made,
    routing the placements and allocations just made and the caller's core resource (positionally, nothing from an earlier call);
    the application map and the tables are built from those results.  (That the caller's own constraint list and the shared
    default arguments are not touched is the frame contract of C17.)"""
    properties = ("C01",)
    params = dict(_PARAMS, reserve_monitor=TConst(True), align_sdram=TConst(True))
    externals = _EXT
    options = {"no_merge": True}
    assumptions = _ASSUME

    def native(x):
        raise __import__("pyvc.replay", fromlist=["OutsideHarness"]).OutsideHarness()

    def ensures_every_stage_sees_the_same_problem_and_the_results_of_the_stages_before(
            vertices_resources, vertices_applications, nets, net_keys, machine, constraints, core_resource, sdram_resource, result, _trace):
        cons = _trace[0][1][3]
        return (_stages_ok(_trace, 3, vertices_resources, vertices_applications, nets, net_keys, machine, core_resource, result)
                and any(c.ident == constraints[0].ident for c in cons)
                and any(c.ident == 80 and c.resource.ident == core_resource.ident and c.lo == 0 and c.hi == 1 for c in cons)
                and any(c.ident == 81 and c.resource.ident == sdram_resource.ident and c.amount == 4 for c in cons))


@contract("rig/place_and_route/wrapper.py::wrapper", variant="constraints_as_given")
class WrapperHandsOnPlain:
    """... and with both conveniences switched off the stages see exactly the caller's constraints"""
    properties = ("C01",)
    params = dict(_PARAMS, reserve_monitor=TConst(False), align_sdram=TConst(False))
    externals = _EXT
    options = {"no_merge": True}
    assumptions = _ASSUME

    def native(x):
        raise __import__("pyvc.replay", fromlist=["OutsideHarness"]).OutsideHarness()

    def ensures_every_stage_sees_the_same_problem_and_the_results_of_the_stages_before(
            vertices_resources, vertices_applications, nets, net_keys, machine, constraints, core_resource, result, _trace):
        return (_stages_ok(_trace, 1, vertices_resources, vertices_applications, nets, net_keys, machine, core_resource, result)
                and _trace[0][1][3][0].ident == constraints[0].ident)


# ---- place_and_route_wrapper: from a probed machine to tables ------------------------------------------------------------------------------
_EXT2 = {"Placer.__call__": _stage("place", 1), "Allocator.__call__": _stage("allocate", 2), "Router.__call__": _stage("route", 3),
         "def:build_application_map": _fn("application_map", 4), "def:routing_tree_to_tables": _fn("tables", 5),
         "def:build_machine": _fn("machine", 6), "def:build_routing_table_target_lengths": _fn("targets", 8),
         "def:minimise_tables": _fn("minimised", 9)}


def _core_constraints(E, args, kwargs, st, node):
    s = st.copy()
    s.trace = ListV(s.trace.items + (("core_constraints", tuple(args), tuple(sorted(kwargs.items()))),))
    mk = lambda i: ObjV("Constraint", {"ident": i, "resource": args[1], "lo": 0, "hi": 1, "amount": 0})     # noqa: E731
    return [(s, ListV((mk(70), mk(71))))]


@contract("rig/place_and_route/wrapper.py::place_and_route_wrapper")
class PlaceAndRouteWrapperHandsOn:
    """the machine model and the core reservations are built from the SAME probe result with the caller's resource names; every stage
    sees that machine and the reservations TOGETHER WITH the caller's constraints (one list, the same for all three); allocation gets the placements just made, routing the
    placements and allocations just made and the caller's core resource; the tables are made from exactly those routes and the
    caller's keys and minimised towards the table sizes of the same probe result with the methods given; what is returned are the
    placements, the allocations, the application map of exactly those, and the minimised tables"""
    properties = ("C01", "C14")
    params = dict(vertices_resources=_O("VR"), vertices_applications=_O("VA"), nets=_O("Nets"), net_keys=_O("Keys"), system_info=_O("SystemInfo"),
                  constraints=TList(_CONSTRAINT), place=_O("Placer"), allocate=_O("Allocator"), route=_O("Router"),
                  minimise_tables_methods=_O("Methods"), core_resource=_O("Resource"), sdram_resource=_O("Resource"), sram_resource=_O("Resource"))
    externals = dict(_EXT2, **{"def:build_core_constraints": _core_constraints})
    options = {"no_merge": True}
    assumptions = ["every stage and builder is opaque and recorded (their own properties decide what they return); the stages' keyword "
                   "arguments: the wrapper's own defaults (empty)"]

    def native(x):
        raise __import__("pyvc.replay", fromlist=["OutsideHarness"]).OutsideHarness()

    def ensures_one_probe_result_one_problem_and_each_stage_fed_by_the_one_before(
            vertices_resources, vertices_applications, nets, net_keys, system_info, constraints, minimise_tables_methods, core_resource,
            sdram_resource, sram_resource, result, _trace):
        t = _trace
        cons = t[2][1][3]
        return (len(t) == 9
                and t[0][0] == "machine" and t[0][1][0].ident == system_info.ident and len(t[0][1]) == 1
                and t[0][2][0][0] == "core_resource" and t[0][2][0][1].ident == core_resource.ident
                and t[0][2][1][0] == "sdram_resource" and t[0][2][1][1].ident == sdram_resource.ident
                and t[0][2][2][0] == "sram_resource" and t[0][2][2][1].ident == sram_resource.ident
                and t[1][0] == "core_constraints" and t[1][1][0].ident == system_info.ident and t[1][1][1].ident == core_resource.ident
                and t[2][0] == "place" and t[2][1][0].ident == vertices_resources.ident and t[2][1][1].ident == nets.ident and t[2][1][2].ident == 6
                and len(cons) == 3 and any(c.ident == 70 for c in cons) and any(c.ident == 71 for c in cons)
                and any(c.ident == constraints[0].ident for c in cons)
                and t[3][0] == "allocate" and t[3][1][0].ident == vertices_resources.ident and t[3][1][2].ident == 6 and len(t[3][1][3]) == 3
                and t[3][1][4].ident == 1
                and t[4][0] == "route" and t[4][1][0].ident == vertices_resources.ident and t[4][1][1].ident == nets.ident and t[4][1][2].ident == 6
                and len(t[4][1][3]) == 3 and t[4][1][4].ident == 1 and t[4][1][5].ident == 2 and t[4][1][6].ident == core_resource.ident
                and t[5][0] == "application_map" and t[5][1][0].ident == vertices_applications.ident and t[5][1][1].ident == 1
                and t[5][1][2].ident == 2 and t[5][1][3].ident == core_resource.ident
                and t[6][0] == "tables" and t[6][1][0].ident == 3 and t[6][1][1].ident == net_keys.ident
                and t[7][0] == "targets" and t[7][1][0].ident == system_info.ident
                and t[8][0] == "minimised" and t[8][1][0].ident == 5 and t[8][1][1].ident == 8 and t[8][1][2].ident == minimise_tables_methods.ident
                and result[0].ident == 1 and result[1].ident == 2 and result[2].ident == 4 and result[3].ident == 9)
