"""C02 -- the resource arithmetic every placer's feasibility test goes through
(rig/place_and_route/place/utils.py).  Resources are dicts keyed by resource objects (modelled by
integer identities).  The placers themselves are decided by bounded/c02_place.py."""
from pyvc.spec import contract, lemma
from pyvc.values import TInt, TBool, TMap, TRec, TNone
from pyvc.speclib import implies, iff, forall_int, exists_int

RES = TMap(TInt(), TInt())
SLICE = TRec("slice", start=TInt(), stop=TInt(), step=TNone())
CONSTRAINT = TRec("ReserveResourceConstraint", resource=TInt(), reservation=SLICE)


def _skip():
    raise __import__("pyvc.replay", fromlist=["OutsideHarness"]).OutsideHarness()


@contract("rig/place_and_route/place/utils.py::add_resources")
class AddResources:
    properties = ("C02",)
    params = dict(res_a=RES, res_b=RES)
    result = RES

    def native(res_a, res_b):
        _skip()

    def ensures_pointwise_sum_over_the_first_operands_resources(res_a, res_b, result):
        return forall_int(lambda k: ((k in result) == (k in res_a))
                          and implies(k in res_a, result[k] == res_a[k] + (res_b[k] if k in res_b else 0)))


@contract("rig/place_and_route/place/utils.py::subtract_resources")
class SubtractResources:
    properties = ("C02",)
    params = dict(res_a=RES, res_b=RES)
    result = RES

    def native(res_a, res_b):
        _skip()

    def ensures_pointwise_difference(res_a, res_b, result):
        return forall_int(lambda k: ((k in result) == (k in res_a))
                          and implies(k in res_a, result[k] == res_a[k] - (res_b[k] if k in res_b else 0)))


@contract("rig/place_and_route/place/utils.py::overallocated")
class Overallocated:
    properties = ("C02",)
    params = dict(res=RES)
    result = TBool()

    def native(res):
        _skip()

    def ensures_true_iff_some_resource_is_negative(res, result):
        return iff(result, exists_int(lambda k: k in res and res[k] < 0))


@contract("rig/place_and_route/place/utils.py::resources_after_reservation")
class ResourcesAfterReservation:
    properties = ("C02",)
    params = dict(res=RES, constraint=CONSTRAINT)
    result = RES
    raises = {"KeyError": None}

    def native(res, constraint):
        _skip()

    def raises_KeyError(res, constraint):
        return not (constraint.resource in res)

    def ensures_only_the_reserved_resource_shrinks_by_the_size_of_the_reservation(res, constraint, result):
        n = constraint.reservation.stop - constraint.reservation.start
        return forall_int(lambda k: ((k in result) == (k in res))
                          and implies(k in res and k != constraint.resource, result[k] == res[k])
                          and implies(k == constraint.resource, result[k] == res[k] - n))
