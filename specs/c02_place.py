"""C02 -- the resource arithmetic every placer's feasibility test goes through
(rig/place_and_route/place/utils.py).  Resources are dicts keyed by resource objects (modelled by
integer identities).  The placers themselves are decided by bounded/c02_place.py."""
from pyvc.spec import contract, lemma
from pyvc.values import TInt, TBool, TMap, TRec, TNone
from pyvc.speclib import implies, iff, forall_int, exists_int

RES = TMap(TInt(), TInt())
SLICE = TRec("slice", start=TInt(), stop=TInt(), step=TNone())
CONSTRAINT = TRec("ReserveResourceConstraint", resource=TInt(), reservation=SLICE)


def _skip():
    raise __import__("pyvc.replay", fromlist=["OutsideHarness"]).OutsideHarness()


@contract("rig/place_and_route/place/utils.py::add_resources")
class AddResources:
    properties = ("C02",)
    params = dict(res_a=RES, res_b=RES)
    result = RES

    def native(res_a, res_b):
        _skip()

    def ensures_pointwise_sum_over_the_first_operands_resources(res_a, res_b, result):
        return forall_int(lambda k: ((k in result) == (k in res_a))
                          and implies(k in res_a, result[k] == res_a[k] + (res_b[k] if k in res_b else 0)))


@contract("rig/place_and_route/place/utils.py::subtract_resources")
class SubtractResources:
    properties = ("C02",)
    params = dict(res_a=RES, res_b=RES)
    result = RES

    def native(res_a, res_b):
        _skip()

    def ensures_pointwise_difference(res_a, res_b, result):
        return forall_int(lambda k: ((k in result) == (k in res_a))
                          and implies(k in res_a, result[k] == res_a[k] - (res_b[k] if k in res_b else 0)))


@contract("rig/place_and_route/place/utils.py::overallocated")
class Overallocated:
    properties = ("C02",)
    params = dict(res=RES)
    result = TBool()

    def native(res):
        _skip()

    def ensures_true_iff_some_resource_is_negative(res, result):
        return iff(result, exists_int(lambda k: k in res and res[k] < 0))


@contract("rig/place_and_route/place/utils.py::resources_after_reservation")
class ResourcesAfterReservation:
    properties = ("C02",)
    params = dict(res=RES, constraint=CONSTRAINT)
    result = RES
    raises = {"KeyError": None}

    def native(res, constraint):
        _skip()

    def raises_KeyError(res, constraint):
        return not (constraint.resource in res)

    def ensures_only_the_reserved_resource_shrinks_by_the_size_of_the_reservation(res, constraint, result):
        n = constraint.reservation.stop - constraint.reservation.start
        return forall_int(lambda k: ((k in result) == (k in res))
                          and implies(k in res and k != constraint.resource, result[k] == res[k])
                          and implies(k == constraint.resource, result[k] == res[k] - n))


# ---- the placement step of the sequential placer (which breadth-first, Hilbert, RCM and random placement all reduce to):
# ---- ONE iteration of `for vertex in movable_vertices:` of sequential.place, extracted mechanically -------------------------
import z3   # noqa: E402
from pyvc.values import TTuple, TMap as _TMap, MapV as _MapV, ObjV as _ObjV, fresh_name as _fresh, key_sort as _key_sort, NONE as _NONE   # noqa: E402
from pyvc import ops as _ops   # noqa: E402

CHIPRES = _TMap(TTuple(TInt(), TInt(), TInt()), TInt())      # (x, y, resource) -> amount still free
XY = TTuple(TInt(), TInt())


def _machine_getitem(E, obj, args, kwargs, st, node):
    """machine[chip]: the resources of that chip, as a map resource -> amount (a slice of the ghost map g_free)"""
    g = st.env["g_free"]
    cx, cy = args[0]
    ks = _key_sort(CHIPRES.key)
    r = z3.Int(_fresh("r"))
    dom = z3.Array(_fresh("chipdom"), z3.IntSort(), z3.BoolSort())
    val = z3.Array(_fresh("chipval"), z3.IntSort(), z3.IntSort())
    k = ks.mk(cx, cy, r)
    _ops.define(dom.decl().name(), z3.ForAll([r], z3.Select(dom, r) == z3.Select(g.dom, k), patterns=[z3.Select(dom, r)]))
    _ops.define(val.decl().name(), z3.ForAll([r], z3.Select(val, r) == z3.Select(g.arrs[0], k), patterns=[z3.Select(val, r)]))
    return [(st, _MapV(TInt(), TInt(), dom, [val]), None)]


def _machine_setitem(E, obj, args, kwargs, st, node):
    """machine[chip] = resources: that chip's slice of g_free is replaced, every other chip keeps its resources"""
    g = st.env["g_free"]
    (cx, cy), res = args
    ks = _key_sort(CHIPRES.key)
    k = z3.Const(_fresh("k"), ks)
    dom = z3.Array(_fresh("freedom"), ks, z3.BoolSort())
    val = z3.Array(_fresh("freeval"), ks, z3.IntSort())
    here = z3.And(ks.f0(k) == cx, ks.f1(k) == cy)
    _ops.define(dom.decl().name(), z3.ForAll([k], z3.Select(dom, k) == z3.If(here, z3.Select(res.dom, ks.f2(k)), z3.Select(g.dom, k)), patterns=[z3.Select(dom, k)]))
    _ops.define(val.decl().name(), z3.ForAll([k], z3.Select(val, k) == z3.If(here, z3.Select(res.arrs[0], ks.f2(k)), z3.Select(g.arrs[0], k)), patterns=[z3.Select(val, k)]))
    s = st.copy()
    s.env = dict(s.env)
    s.env["g_free"] = _MapV(g.key, g.val, dom, [val])
    return [(s, _NONE, None)]


def _need_of_vertex(E, obj, args, kwargs, st, node):
    return [(st, st.env["g_need"], None)]


def _next_chip(E, args, kwargs, st, node):
    """next(chips_iter): some chip (the iterator cycles over the working chips; which one comes next is not modelled)"""
    from pyvc.values import fresh
    v, facts = fresh(XY, "nextchip")
    return [(st.assume(*facts), v)]


@contract("rig/place_and_route/place/sequential.py::place@forbody:3")
class SequentialPlaceStep:
    fragment_head = "for vertex in movable_vertices:"
    """The vertex is put on the first chip offered on which, for EVERY resource it needs, enough is still free; that chip's free
    resources shrink by exactly the vertex's needs and none becomes negative; every other chip and every other vertex's placement
    is untouched; the only failure is InsufficientResourceError.  (Dropped by the extraction: constraint handling and vertex / chip
    ordering around the loop.  Which chip the cyclic iterator offers next, and that it eventually comes round - termination - are
    not modelled.)"""
    properties = ("C02",)
    params = dict(vertex=TInt(), cur_chip=XY, last_successful_chip=XY, placements=_TMap(TInt(), XY),
                  machine=TRec("Machine"), vertices_resources=TRec("VerticesResources"), chips_iter=TRec("ChipIter"),
                  g_free=CHIPRES, g_need=RES)
    fragment_result = ("placements", "cur_chip", "last_successful_chip")
    modular = ("rig/place_and_route/place/utils.py::subtract_resources", "rig/place_and_route/place/utils.py::overallocated")
    externals = {"Machine.__getitem__": _machine_getitem, "Machine.__setitem__": _machine_setitem,
                 "VerticesResources.__getitem__": _need_of_vertex, "next": _next_chip}
    options = {"var_shapes": {"resources_if_placed": RES}, "while_unroll": 0}
    raises = {"InsufficientResourceError": None}
    loop_headers = {1: "while True:"}
    assumptions = ["machine[chip] / machine[chip] = r are abstracted by a ghost map (x, y, resource) -> amount; vertices_resources[vertex] is the ghost map g_need; "
                   "the cyclic chip iterator is an arbitrary source of chips: termination of the search is not proved"]

    def native(vertex):
        _skip()

    def raises_InsufficientResourceError(vertex):
        return True

    # the search loop changes nothing until it places the vertex
    def inv_1_nothing_changed_yet(g_free, old_g_free, placements, old_placements):
        return (forall_int(lambda x, y, r: ((x, y, r) in g_free) == ((x, y, r) in old_g_free)
                           and implies((x, y, r) in g_free, g_free[(x, y, r)] == old_g_free[(x, y, r)]))
                and forall_int(lambda v: (v in placements) == (v in old_placements) and implies(v in placements, placements[v] == old_placements[v])))

    def ensures_vertex_placed_on_the_chip_reported(vertex, result):
        return vertex in result[0] and result[0][vertex] == result[1] and result[2] == result[1]

    def ensures_other_placements_untouched(vertex, old_placements, result):
        return forall_int(lambda v: implies(v != vertex, (v in result[0]) == (v in old_placements)
                                            and implies(v in result[0], result[0][v] == old_placements[v])))

    def ensures_that_chip_had_room_for_every_resource_needed(g_need, old_g_free, result):
        c = result[1]
        return forall_int(lambda r: implies((c[0], c[1], r) in old_g_free,
                                            old_g_free[(c[0], c[1], r)] - (g_need[r] if r in g_need else 0) >= 0))

    def ensures_its_free_resources_shrink_by_exactly_the_needs(g_need, old_g_free, g_free_post, result):
        c = result[1]
        return forall_int(lambda r: ((c[0], c[1], r) in g_free_post) == ((c[0], c[1], r) in old_g_free)
                          and implies((c[0], c[1], r) in g_free_post,
                                      g_free_post[(c[0], c[1], r)] == old_g_free[(c[0], c[1], r)] - (g_need[r] if r in g_need else 0)))

    def ensures_every_other_chip_untouched(old_g_free, g_free_post, result):
        c = result[1]
        return forall_int(lambda x, y, r: implies(not (x == c[0] and y == c[1]),
                                                  ((x, y, r) in g_free_post) == ((x, y, r) in old_g_free)
                                                  and implies((x, y, r) in g_free_post, g_free_post[(x, y, r)] == old_g_free[(x, y, r)])))


# ---- the same step once more, for TERMINATION: the chip iterator cycles over n distinct chips --------------------------------------
from pyvc.speclib import uf as _ufn   # noqa: E402


def _cx(i):
    return _ufn("cycle_x", i)


def _cy(i):
    return _ufn("cycle_y", i)


def _ufz(name, t):
    return z3.Function("uf_" + name, z3.IntSort(), z3.IntSort())(t)


def _next_in_cycle(E, args, kwargs, st, node):
    """next(chips_iter) for itertools.cycle over the working chips: the chip at the next position of the cycle (positions count
    up; the chips repeat with period n - see the precondition)"""
    it = args[0]
    k1 = it.fields["pos"] + 1
    s = st.copy()
    s.env = dict(s.env)
    s.env["chips_iter"] = _ObjV("ChipIter", {"pos": k1})
    return [(s, (_ufz("cycle_x", k1), _ufz("cycle_y", k1)))]


@contract("rig/place_and_route/place/sequential.py::place@forbody:3", variant="termination")
class SequentialPlaceStepTerminates:
    """the search for a chip ENDS: starting from the chip of the last success (where every search starts), the iterator offers
    each of the n working chips once; the search stops at the first that has room, or - having come round to where it started -
    with InsufficientResourceError.  It never goes round twice and never spins."""
    fragment_head = "for vertex in movable_vertices:"
    properties = ("C02",)
    params = dict(vertex=TInt(), cur_chip=XY, last_successful_chip=XY, placements=_TMap(TInt(), XY),
                  machine=TRec("Machine"), vertices_resources=TRec("VerticesResources"), chips_iter=TRec("ChipIter", pos=TInt()),
                  g_free=CHIPRES, g_need=RES, g_n=TInt(1, None))
    fragment_result = ("cur_chip", "last_successful_chip")
    modular = ("rig/place_and_route/place/utils.py::subtract_resources", "rig/place_and_route/place/utils.py::overallocated")
    externals = {"Machine.__getitem__": _machine_getitem, "Machine.__setitem__": _machine_setitem,
                 "VerticesResources.__getitem__": _need_of_vertex, "next": _next_in_cycle}
    options = {"var_shapes": {"resources_if_placed": RES, "chips_iter": TRec("ChipIter", pos=TInt())}}
    raises = {"InsufficientResourceError": None}
    loop_headers = {1: "while True:"}
    assumptions = ["itertools.cycle over the n >= 1 distinct working chips: position k of the iterator holds chip (cycle_x(k), cycle_y(k)), the chips of "
                   "n consecutive positions are pairwise distinct and position k + n holds the chip of position k"]

    def native(vertex):
        _skip()

    def requires(cur_chip, last_successful_chip, chips_iter, g_n):
        k0 = chips_iter.pos
        return (cur_chip == (_cx(k0), _cy(k0))
                # every search starts where the last one succeeded (established before the loop and by every success)
                and last_successful_chip == cur_chip
                and forall_int(lambda i: implies(k0 < i < k0 + g_n, not (_cx(i) == _cx(k0) and _cy(i) == _cy(k0))))
                and _cx(k0 + g_n) == _cx(k0) and _cy(k0 + g_n) == _cy(k0))

    def raises_InsufficientResourceError(chips_iter_post, chips_iter, g_n):
        # only after every chip was offered once
        return chips_iter_post.pos == chips_iter.pos + g_n

    def inv_1_not_yet_round(cur_chip, last_successful_chip, chips_iter, old_chips_iter, g_n):
        k0 = old_chips_iter.pos
        return (k0 <= chips_iter.pos < k0 + g_n and cur_chip == (_cx(chips_iter.pos), _cy(chips_iter.pos))
                and last_successful_chip == (_cx(k0), _cy(k0)))

    def variant_1(chips_iter, old_chips_iter, g_n):
        return old_chips_iter.pos + g_n - chips_iter.pos

    def ensures_the_next_search_starts_where_this_one_succeeded(result):
        return result[1] == result[0]


@contract("rig/place_and_route/place/sequential.py::place@seq:10:1")
class SequentialPlaceSearchStart:
    """before the first vertex: the search is marked as starting at the first chip offered (the precondition of the step above)"""
    fragment_head = "last_successful_chip = ..."
    properties = ("C02",)
    params = dict(cur_chip=XY)
    fragment_result = ("last_successful_chip",)

    def native(cur_chip):
        _skip()

    def ensures_search_starts_at_the_first_chip(cur_chip, result):
        return result[0] == cur_chip


# ---- apply_reserve_resource_constraint: a machine-wide reservation meeting one chip with resources of its own (fragment) -----------
from pyvc.values import ListV, NONE   # noqa: E402,F401
GCONSTRAINT = TRec("ReserveResourceConstraint", resource=TInt(), reservation=SLICE, location=TNone())


def _exc_get(E, obj, args, kwargs, st, node):
    s = st.copy()
    s.trace = ListV(s.trace.items + (("exception_of", args[0]),))
    # (what is read back after it was replaced in this step is the replacement)
    for t in reversed(st.trace.items):
        if t[0] == "exception_set" and t[1] is args[0]:
            s.trace = st.trace
            return [(st, t[2], None)]
    return [(s, st.env["g_old"], None)]


def _exc_set(E, obj, args, kwargs, st, node):
    s = st.copy()
    s.trace = ListV(s.trace.items + (("exception_set", args[0], args[1]),))
    return [(s, NONE, None)]


def _machine_has(E, obj, args, kwargs, st, node):
    return [(st, st.env["g_live"], None)]


@contract("rig/place_and_route/place/utils.py::apply_reserve_resource_constraint@forbody:0")
class GlobalReservationOnAnException:
    """a machine-wide reservation meets one chip with resources of its own: that chip's resources are REPLACED (not edited in
    place: the dictionary may be the caller's) by what is left after the reservation - only the reserved resource shrinks, by
    exactly the length of the reserved range - and the reservation fails exactly when the chip is a WORKING chip of the machine and
    is left with a negative amount (a dead chip's entry never makes a reservation fail)"""
    properties = ("C02",)
    params = dict(machine=TRec("Machine", chip_resource_exceptions=TRec("Exceptions")), constraint=GCONSTRAINT, location=TTuple(TInt(), TInt()),
                  g_old=RES, g_live=TBool())
    fragment_result = ()
    fragment_head = "for location in machine.chip_resource_exceptions:"
    modular = ("rig/place_and_route/place/utils.py::resources_after_reservation", "rig/place_and_route/place/utils.py::overallocated")
    externals = {"Exceptions.__getitem__": _exc_get, "Exceptions.__setitem__": _exc_set, "Machine.__contains__": _machine_has}
    raises = {"InsufficientResourceError": None, "KeyError": None}
    options = {"no_merge": True}
    assumptions = ["the table of exceptions is opaque (what is read and stored is recorded; the chip's resources before the step are the ghost g_old); "
                   "whether the chip is a working chip of the machine is a ghost"]

    def native(location):
        _skip()

    def requires(constraint, g_old):
        return constraint.resource in g_old

    def raises_KeyError(constraint, g_old):
        return False

    def raises_InsufficientResourceError(constraint, g_old, g_live):
        n = constraint.reservation.stop - constraint.reservation.start
        return g_live and exists_int(lambda k: k in g_old and (g_old[k] - (n if k == constraint.resource else 0)) < 0)

    def ensures_replaced_by_what_is_left_and_fails_only_for_a_working_chip(constraint, location, g_old, g_live, _trace):
        n = constraint.reservation.stop - constraint.reservation.start
        new = _trace[1][2]
        return (len(_trace) == 2 and _trace[0] == ("exception_of", location) and _trace[1][0] == "exception_set" and _trace[1][1] == location
                and forall_int(lambda k: ((k in new) == (k in g_old)) and implies(k in g_old, new[k] == g_old[k] - (n if k == constraint.resource else 0)))
                and implies(g_live, not exists_int(lambda k: k in new and new[k] < 0)))


# ---- sequential.place: one constraint of its constraint loop (fragment, one contract per kind) --------------------------------------
def _machine_has_chip(E, obj, args, kwargs, st, node):
    return [(st, st.env["g_on_machine"], None)]


def _apply_reserve(E, args, kwargs, st, node):
    s = st.copy()
    s.trace = ListV(s.trace.items + (("apply_reserve_resource_constraint", args[1]),))
    return [(s, NONE)]


@contract("rig/place_and_route/place/sequential.py::place@forbody:0", variant="location")
class SequentialPlaceLocated:
    """a vertex with a location constraint: refused with InvalidConstraintError exactly when the location is not a working chip of
    the machine; otherwise it is placed on EXACTLY that chip, whose free resources shrink by exactly its needs (every other chip
    untouched), and InsufficientResourceError is raised exactly when some resource of that chip is left negative"""
    properties = ("C02",)
    params = dict(constraint=TRec("LocationConstraint", vertex=TInt(), location=XY), placements=_TMap(TInt(), XY), machine=TRec("Machine"),
                  vertices_resources=TRec("VerticesResources"), g_free=CHIPRES, g_need=RES, g_on_machine=TBool())
    fragment_result = ("placements",)
    fragment_head = "for constraint in constraints:"
    modular = ("rig/place_and_route/place/utils.py::subtract_resources", "rig/place_and_route/place/utils.py::overallocated")
    externals = {"Machine.__getitem__": _machine_getitem, "Machine.__setitem__": _machine_setitem, "Machine.__contains__": _machine_has_chip,
                 "VerticesResources.__getitem__": _need_of_vertex, "def:apply_reserve_resource_constraint": _apply_reserve}
    raises = {"InvalidConstraintError": None, "InsufficientResourceError": None}
    options = {"no_merge": True}
    assumptions = ["machine[chip] / machine[chip] = r are abstracted by the ghost map g_free (x, y, resource) -> amount; whether the location is a working "
                   "chip is a ghost; vertices_resources[vertex] is the ghost map g_need"]

    def native(constraint):
        _skip()

    def raises_InvalidConstraintError(g_on_machine, _trace):
        return not g_on_machine

    def raises_InsufficientResourceError(constraint, g_on_machine, g_need, g_free):
        c = constraint.location
        return g_on_machine and exists_int(lambda r: (c[0], c[1], r) in g_free and g_free[(c[0], c[1], r)] - (g_need[r] if r in g_need else 0) < 0)

    def ensures_placed_on_its_location_which_shrinks_by_its_needs(constraint, g_on_machine, g_need, old_g_free, g_free_post, old_placements, result):
        c = constraint.location
        v = constraint.vertex
        return (g_on_machine and v in result[0] and result[0][v] == c
                and forall_int(lambda u: implies(u != v, (u in result[0]) == (u in old_placements) and implies(u in result[0], result[0][u] == old_placements[u])))
                and forall_int(lambda r: ((c[0], c[1], r) in g_free_post) == ((c[0], c[1], r) in old_g_free)
                               and implies((c[0], c[1], r) in g_free_post,
                                           g_free_post[(c[0], c[1], r)] == old_g_free[(c[0], c[1], r)] - (g_need[r] if r in g_need else 0)
                                           and g_free_post[(c[0], c[1], r)] >= 0))
                and forall_int(lambda x, y, r: implies(not (x == c[0] and y == c[1]),
                                                       ((x, y, r) in g_free_post) == ((x, y, r) in old_g_free)
                                                       and implies((x, y, r) in g_free_post, g_free_post[(x, y, r)] == old_g_free[(x, y, r)]))))


@contract("rig/place_and_route/place/sequential.py::place@forbody:0", variant="reservation")
class SequentialPlaceReservation:
    """a reservation is handed to apply_reserve_resource_constraint (its own contracts) and places nothing"""
    properties = ("C02",)
    params = dict(constraint=TRec("ReserveResourceConstraint", resource=TInt()), placements=_TMap(TInt(), XY), machine=TRec("Machine"),
                  vertices_resources=TRec("VerticesResources"), g_free=CHIPRES, g_need=RES, g_on_machine=TBool())
    fragment_result = ("placements",)
    fragment_head = "for constraint in constraints:"
    externals = SequentialPlaceLocated.externals

    def native(constraint):
        _skip()

    def ensures_applied_and_nothing_placed(constraint, old_placements, result, _trace):
        return (len(_trace) == 1 and _trace[0] == ("apply_reserve_resource_constraint", constraint)
                and forall_int(lambda u: (u in result[0]) == (u in old_placements) and implies(u in result[0], result[0][u] == old_placements[u])))


# ---- the ordering placers: hilbert, breadth-first and RCM only choose ORDERS; the problem they hand to the sequential placer is the caller's ----
from pyvc.values import ListV as _L02, ObjV as _O02, TRec as _TRec02, TInt as _TInt02, TBool as _TBool02   # noqa: E402


def _o02(name):
    return _TRec02(name, ident=_TInt02(0, 99))


def _order_fn(tag, ident):
    def handler(E, args, kwargs, st, node):
        s = st.copy()
        s.trace = _L02(s.trace.items + ((tag,) + tuple(a.fields["ident"] for a in args),))
        return [(s, _O02("Order", {"ident": ident}))]
    return handler


def _seq_place(E, args, kwargs, st, node):
    s = st.copy()
    s.trace = _L02(s.trace.items + (("sequential_place",) + tuple((a.fields["ident"] if hasattr(a, "fields") else a) for a in args),))
    return [(s, _O02("Placements", {"ident": 50}))]


_P02 = dict(vertices_resources=_o02("VR"), nets=_o02("Nets"), machine=_o02("Machine"), constraints=_o02("Constraints"))


@contract("rig/place_and_route/place/hilbert.py::place")
class HilbertPlaceHandsOn:
    """the Hilbert placer is the sequential placer on exactly the caller's graph, machine and constraints (which vertex and chip
    ORDERS it chooses is its own business: the statement asks for a valid placement, not for a particular one); its answer is the
    sequential placer's"""
    properties = ("C02",)
    params = dict(_P02, breadth_first=_TBool02())
    externals = {"def:place": _seq_place, "def:breadth_first_vertex_order": _order_fn("vertex_order", 61),
                 "def:hilbert_chip_order": _order_fn("chip_order", 62)}
    options = {"no_merge": True}
    assumptions = ["the sequential placer (its step contracts) and the order functions are opaque and recorded; the orders themselves "
                   "(completeness of the chip order) are exercised by the bounded layer"]

    def native(x):
        raise __import__("pyvc.replay", fromlist=["OutsideHarness"]).OutsideHarness()

    def ensures_the_callers_problem_and_the_sequential_placers_answer(vertices_resources, nets, machine, constraints, result, _trace):
        last = _trace[len(_trace) - 1]
        return (result.ident == 50 and last[0] == "sequential_place" and len([t for t in _trace if t[0] == "sequential_place"]) == 1
                and last[1:5] == (vertices_resources.ident, nets.ident, machine.ident, constraints.ident))


@contract("rig/place_and_route/place/breadth_first.py::place")
class BreadthFirstPlaceHandsOn:
    """the breadth-first placer is the sequential placer on exactly the caller's problem; its answer is the sequential placer's"""
    properties = ("C02",)
    params = dict(_P02, chip_order=_o02("ChipOrder"))
    externals = {"def:place": _seq_place, "def:breadth_first_vertex_order": _order_fn("vertex_order", 61)}
    assumptions = HilbertPlaceHandsOn.assumptions

    def native(x):
        raise __import__("pyvc.replay", fromlist=["OutsideHarness"]).OutsideHarness()

    def ensures_the_callers_problem_and_the_sequential_placers_answer(vertices_resources, nets, machine, constraints, result, _trace):
        last = _trace[len(_trace) - 1]
        return (result.ident == 50 and last[0] == "sequential_place" and len([t for t in _trace if t[0] == "sequential_place"]) == 1
                and last[1:5] == (vertices_resources.ident, nets.ident, machine.ident, constraints.ident))


@contract("rig/place_and_route/place/rcm.py::place")
class RcmPlaceHandsOn:
    """the RCM placer is the sequential placer on exactly the caller's problem; its answer is the sequential placer's"""
    properties = ("C02",)
    params = dict(_P02)
    externals = {"def:place": _seq_place, "def:rcm_vertex_order": _order_fn("vertex_order", 61), "def:rcm_chip_order": _order_fn("chip_order", 62)}
    assumptions = HilbertPlaceHandsOn.assumptions

    def native(x):
        raise __import__("pyvc.replay", fromlist=["OutsideHarness"]).OutsideHarness()

    def ensures_the_callers_problem_and_the_sequential_placers_answer(vertices_resources, nets, machine, constraints, result, _trace):
        last = _trace[len(_trace) - 1]
        return (result.ident == 50 and last[0] == "sequential_place" and len([t for t in _trace if t[0] == "sequential_place"]) == 1
                and last[1:5] == (vertices_resources.ident, nets.ident, machine.ident, constraints.ident))
