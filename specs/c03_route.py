"""C03 -- link primitives used by the router (rig/place_and_route/route/utils.py::links_between,
with the real Machine.__contains__ inlined).  The tree construction and repair (object graphs)
are decided by bounded/c03_route.py."""
from pyvc.spec import contract, lemma
from pyvc.values import TInt, TTuple, TRec, TSet
from pyvc.speclib import implies, iff, ite
from rig.place_and_route.machine import Machine     # noqa: F401  (class resolution for the engine)

T2 = TTuple(TInt(), TInt())
T3 = TTuple(TInt(), TInt(), TInt())
MACHINE = TRec("Machine", width=TInt(1, None), height=TInt(1, None), dead_chips=TSet(T2), dead_links=TSet(T3))


def link_vec(l):
    return ite(l == 0, (1, 0), ite(l == 1, (1, 1), ite(l == 2, (0, 1),
               ite(l == 3, (-1, 0), ite(l == 4, (-1, -1), (0, -1))))))


def working(machine, x, y, l):
    return (0 <= x < machine.width and 0 <= y < machine.height and (x, y) not in machine.dead_chips
            and (x, y, l) not in machine.dead_links)


@contract("rig/place_and_route/route/utils.py::links_between")
class LinksBetween:
    properties = ("C03", "C11")      # (C11: links, vectors and the torus size are mutually consistent)
    params = dict(a=T2, b=T2, machine=MACHINE)
    options = {"int_class": "rig/links.py::Links"}

    def native(a, b, machine):
        from rig.place_and_route import Machine, Cores
        from rig.place_and_route.route.utils import links_between
        from rig.links import Links
        m = Machine(machine.width, machine.height, dead_chips=set(map(tuple, machine.dead_chips)),
                    dead_links=set((x, y, Links(l)) for x, y, l in machine.dead_links if 0 <= l <= 5))
        return links_between(a, b, m)

    def ensures_exactly_the_working_links_that_lead_from_a_to_b(a, b, machine, result):
        return all(iff(l in result,
                       (a[0] + link_vec(l)[0]) % machine.width == b[0]
                       and (a[1] + link_vec(l)[1]) % machine.height == b[1]
                       and working(machine, a[0], a[1], l))
                   for l in range(6))


# ---- "does this tree use dead hardware": the test that decides whether a tree is repaired ------------------------------
from pyvc.values import TSeq, TSmallSet, TBool   # noqa: E402
from pyvc.speclib import exists_range, select, seq_len   # noqa: E402

HOP = TTuple(TInt(), T2, TSmallSet(list(range(6))))        # what RoutingTree.traverse() yields: (direction, chip, outgoing links)


def _traverse(E, obj, args, kwargs, st, node):
    """RoutingTree.traverse(): the hops of the tree as a sequence (ghost input g_hops)"""
    return [(st, st.env["g_hops"], None)]


@contract("rig/place_and_route/route/ner.py::route_has_dead_links")
class RouteHasDeadLinks:
    """(also serves C01: a tree that uses dead hardware must be recognised, or packets are sent into it)
    True exactly when some hop of the tree leaves a chip by a link that is not a working link of a working chip inside the
    machine - in particular a hop out of a dead chip counts whether or not any link is listed as dead"""
    properties = ("C03", "C01")
    params = dict(root=TRec("RoutingTree"), machine=MACHINE, g_hops=TSeq(HOP))
    result = TBool()
    externals = {"RoutingTree.traverse": _traverse}
    options = {"int_class": "rig/links.py::Links", "var_shapes": {"direction": TInt(), "x": TInt(), "y": TInt(), "routes": TSmallSet(list(range(6)))}}
    loop_headers = {0: "for direction, (x, y), routes in root.traverse():"}
    assumptions = ["RoutingTree.traverse (generator over an object graph) is external: the hops it yields are a ghost sequence; routes are links (cores never leave a chip)"]

    def native(machine, g_hops):
        raise __import__("pyvc.replay", fromlist=["OutsideHarness"]).OutsideHarness()

    def inv_0_no_dead_hop_so_far(g_hops, machine, _k0):
        return not exists_range(0, _k0, lambda i: any(l in select(g_hops, i)[2] and not working(machine, select(g_hops, i)[1][0], select(g_hops, i)[1][1], l)
                                                      for l in range(6)))

    def ensures_true_iff_some_hop_uses_dead_hardware(g_hops, machine, result):
        return iff(result, exists_range(0, seq_len(g_hops), lambda i: any(
            l in select(g_hops, i)[2] and not working(machine, select(g_hops, i)[1][0], select(g_hops, i)[1][1], l) for l in range(6))))
