"""C03 -- link primitives used by the router (rig/place_and_route/route/utils.py::links_between,
with the real Machine.__contains__ inlined).  The tree construction and repair (object graphs)
are decided by bounded/c03_route.py."""
from pyvc.spec import contract, lemma
from pyvc.values import TInt, TTuple, TRec, TSet, TSmallSet
from pyvc.speclib import implies, iff, ite
from rig.place_and_route.machine import Machine     # noqa: F401  (class resolution for the engine)

T2 = TTuple(TInt(), TInt())
T3 = TTuple(TInt(), TInt(), TInt())
MACHINE = TRec("Machine", width=TInt(1, None), height=TInt(1, None), dead_chips=TSet(T2), dead_links=TSet(T3))


def link_vec(l):
    return ite(l == 0, (1, 0), ite(l == 1, (1, 1), ite(l == 2, (0, 1),
               ite(l == 3, (-1, 0), ite(l == 4, (-1, -1), (0, -1))))))


def working(machine, x, y, l):
    return (0 <= x < machine.width and 0 <= y < machine.height and (x, y) not in machine.dead_chips
            and (x, y, l) not in machine.dead_links)


@contract("rig/place_and_route/route/utils.py::links_between")
class LinksBetween:
    properties = ("C03", "C11")      # (C11: links, vectors and the torus size are mutually consistent)
    params = dict(a=T2, b=T2, machine=MACHINE)
    result = TSmallSet(list(range(6)))          # (a set of links; used by contract in CopyTreeNode)
    options = {"int_class": "rig/links.py::Links"}

    def native(a, b, machine):
        from rig.place_and_route import Machine, Cores
        from rig.place_and_route.route.utils import links_between
        from rig.links import Links
        m = Machine(machine.width, machine.height, dead_chips=set(map(tuple, machine.dead_chips)),
                    dead_links=set((x, y, Links(l)) for x, y, l in machine.dead_links if 0 <= l <= 5))
        return links_between(a, b, m)

    def ensures_exactly_the_working_links_that_lead_from_a_to_b(a, b, machine, result):
        return all(iff(l in result,
                       (a[0] + link_vec(l)[0]) % machine.width == b[0]
                       and (a[1] + link_vec(l)[1]) % machine.height == b[1]
                       and working(machine, a[0], a[1], l))
                   for l in range(6))


# ---- "does this tree use dead hardware": the test that decides whether a tree is repaired ------------------------------
from pyvc.values import TSeq, TSmallSet, TBool   # noqa: E402
from pyvc.speclib import exists_range, select, seq_len   # noqa: E402

HOP = TTuple(TInt(), T2, TSmallSet(list(range(6))))        # what RoutingTree.traverse() yields: (direction, chip, outgoing links)


def _traverse(E, obj, args, kwargs, st, node):
    """RoutingTree.traverse(): the hops of the tree as a sequence (ghost input g_hops)"""
    return [(st, st.env["g_hops"], None)]


@contract("rig/place_and_route/route/ner.py::route_has_dead_links")
class RouteHasDeadLinks:
    """(also serves C01: a tree that uses dead hardware must be recognised, or packets are sent into it)
    True exactly when some hop of the tree leaves a chip by a link that is not a working link of a working chip inside the
    machine - in particular a hop out of a dead chip counts whether or not any link is listed as dead"""
    properties = ("C03", "C01")
    params = dict(root=TRec("RoutingTree"), machine=MACHINE, g_hops=TSeq(HOP))
    result = TBool()
    externals = {"RoutingTree.traverse": _traverse}
    options = {"int_class": "rig/links.py::Links", "var_shapes": {"direction": TInt(), "x": TInt(), "y": TInt(), "routes": TSmallSet(list(range(6)))}}
    loop_headers = {0: "for direction, (x, y), routes in root.traverse():"}
    assumptions = ["RoutingTree.traverse (generator over an object graph) is external: the hops it yields are a ghost sequence; routes are links (cores never leave a chip)"]

    def native(machine, g_hops):
        raise __import__("pyvc.replay", fromlist=["OutsideHarness"]).OutsideHarness()

    def inv_0_no_dead_hop_so_far(g_hops, machine, _k0):
        return not exists_range(0, _k0, lambda i: any(l in select(g_hops, i)[2] and not working(machine, select(g_hops, i)[1][0], select(g_hops, i)[1][1], l)
                                                      for l in range(6)))

    def ensures_true_iff_some_hop_uses_dead_hardware(g_hops, machine, result):
        return iff(result, exists_range(0, seq_len(g_hops), lambda i: any(
            l in select(g_hops, i)[2] and not working(machine, select(g_hops, i)[1][0], select(g_hops, i)[1][1], l) for l in range(6))))


# ---- the repair search (a_star): one neighbour of the chip taken from the heap (fragment) -----------------------------------------
from pyvc.values import ListV as _ListV, NONE as _NONE   # noqa: E402
from pyvc.speclib import uf   # noqa: E402
import z3 as _z3   # noqa: E402


def _uf3(name, *terms):
    return _z3.Function("uf_" + name, *([_z3.IntSort()] * (len(terms) + 1)))(*[t if _z3.is_expr(t) else _z3.IntVal(int(t)) for t in terms])


def _visited_contains(E, obj, args, kwargs, st, node):
    x, y = args[0]
    return [(st, _uf3("seen", x, y) == 1, None)]


def _visited_set(E, obj, args, kwargs, st, node):
    s = st.copy()
    s.trace = _ListV(s.trace.items + (("visited", args[0], args[1]),))
    return [(s, _NONE, None)]


def _heappush(E, args, kwargs, st, node):
    s = st.copy()
    s.trace = _ListV(s.trace.items + (("push", args[1]),))
    return [(s, _NONE)]


def _heuristic(E, obj, args, kwargs, st, node):
    x, y = args[0]
    return [(st, _uf3("h", x, y), None)]


@contract("rig/place_and_route/route/ner.py::a_star@forbody:0")
class AStarNeighbour:
    """one direction around the chip `node` taken from the heap: the chip looked at is the one FROM which a packet sent over
    that link arrives at `node` (modulo the machine's own width and height - each coordinate with its own dimension); it is
    taken into the search exactly when that link of that chip is working and the chip was not seen before, and then it is
    remembered with exactly (the link, node) - the hop the repaired tree will use - and queued with its own heuristic value"""
    properties = ("C03", "C01")
    params = dict(node=T2, neighbour_link=TInt(0, 5), machine=MACHINE, visited=TRec("Visited"), to_visit=TRec("Heap"), heuristic=TRec("Heuristic"))
    fragment_result = ()
    fragment_head = "for neighbour_link in Links:"
    externals = {"Visited.__contains__": _visited_contains, "Visited.__setitem__": _visited_set, "heappush": _heappush, "Heuristic.__call__": _heuristic}
    options = {"int_class": "rig/links.py::Links"}
    assumptions = ["the visited map, the heap and the heuristic are opaque here (what is stored / pushed is recorded; `in visited` is a function of the chip)"]

    def native(node):
        raise __import__("pyvc.replay", fromlist=["OutsideHarness"]).OutsideHarness()

    def requires(node, machine):
        return 0 <= node[0] < machine.width and 0 <= node[1] < machine.height

    def ensures_looks_at_the_chip_the_link_comes_from_and_takes_it_iff_usable_and_new(node, neighbour_link, machine, _trace):
        return taken_iff(node, neighbour_link, machine, _trace)


def taken_iff(node, l, machine, _trace):
    # (nx, ny): the unique chip of the machine with (nx, ny) + vector(link) == node modulo (width, height)
    nx = (node[0] - link_vec(l)[0]) % machine.width
    ny = (node[1] - link_vec(l)[1]) % machine.height
    take = working(machine, nx, ny, l) and not uf("seen", nx, ny) == 1
    return (implies(not take, len(_trace) == 0)
            and implies(take, len(_trace) == 2 and _trace[0] == ("visited", (nx, ny), (l, node))
                        and _trace[1] == ("push", (uf("h", nx, ny), (nx, ny)))))


from pyvc.values import TOpt, TList, ObjV   # noqa: E402

# ---- copy_and_disconnect_tree: one node taken from the queue (fragment of its while loop) ---------------------------------------------
NODE = TRec("RoutingTree", ident=TInt(), chip=T2, children=TRec("Children"))
OLDNODE = TRec("OldTree", chip=T2, children=TList(TTuple(TInt(0, 5), TInt()), TTuple(TInt(0, 5), TInt())))


def _popleft(E, obj, args, kwargs, st, node):
    return [(st, (st.env["g_parent"], st.env["g_direction"], st.env["g_old"]), None)]


def _queue_append(E, obj, args, kwargs, st, node):
    s = st.copy()
    parent, direction, child = args[0]
    s.trace = _ListV(s.trace.items + (("queued", parent.fields["ident"], direction, child),))
    return [(s, _NONE, None)]


def _new_tree(E, args, kwargs, st, node):
    s = st.copy()
    s.trace = _ListV(s.trace.items + (("node_made", args[0]),))
    return [(s, ObjV("RoutingTree", {"ident": 1000, "chip": args[0], "children": ObjV("Children", {"of": 1000})}))]


def _lookup_set(E, obj, args, kwargs, st, node):
    s = st.copy()
    s.trace = _ListV(s.trace.items + (("lookup", args[0], args[1].fields["ident"]),))
    return [(s, _NONE, None)]


def _children_append(E, obj, args, kwargs, st, node):
    s = st.copy()
    s.trace = _ListV(s.trace.items + (("child_added", args[0][0], args[0][1].fields["ident"]),))
    return [(s, _NONE, None)]


def _broken_add(E, obj, args, kwargs, st, node):
    s = st.copy()
    s.trace = _ListV(s.trace.items + (("broken", args[0]),))
    return [(s, _NONE, None)]


@contract("rig/place_and_route/route/ner.py::copy_and_disconnect_tree@whilebody:0")
class CopyTreeNode:
    """one node of the old tree (here: with a parent on a working chip, itself on a working chip): a new node is made for its
    chip and filed under that chip; it is hung on its parent by the hop's own direction exactly when that direction is a WORKING
    link leading from the parent's chip to this chip (links_between's contract) - otherwise the pair (parent chip, this chip) is
    recorded as broken and nothing is hung; its children are queued with the new node as their parent"""
    properties = ("C03", "C01")
    params = dict(to_visit=TRec("Queue"), machine=MACHINE, new_lookup=TRec("Lookup"), broken_links=TRec("Broken"), new_root=TOpt(TInt()),
                  g_parent=TRec("RoutingTree", ident=TInt(0, 999), chip=T2, children=TRec("Children")), g_direction=TInt(0, 5), g_old=OLDNODE)
    fragment_result = ()
    fragment_head = "while to_visit:"
    modular = ("rig/place_and_route/route/utils.py::links_between",)
    externals = {"Queue.popleft": _popleft, "Queue.append": _queue_append, "class:RoutingTree": _new_tree, "Lookup.__setitem__": _lookup_set,
                 "Children.append": _children_append, "Broken.add": _broken_add}
    options = {"int_class": "rig/links.py::Links", "no_merge": True}
    assumptions = ["tree nodes are records with an identity; the queue, the lookup, the children lists and the set of broken links are opaque (recorded); "
                   "this contract covers a node whose parent exists and whose own chip and parent chip are working"]

    def native(machine):
        raise __import__("pyvc.replay", fromlist=["OutsideHarness"]).OutsideHarness()

    def requires(machine, g_parent, g_old):
        return (working_chip(machine, g_old.chip) and working_chip(machine, g_parent.chip))

    def ensures_hung_on_its_parent_iff_the_hop_is_a_working_link_between_the_two_chips(machine, g_parent, g_direction, g_old, _trace):
        a, b = g_parent.chip, g_old.chip
        ok = ((a[0] + link_vec(g_direction)[0]) % machine.width == b[0] and (a[1] + link_vec(g_direction)[1]) % machine.height == b[1]
              and working(machine, a[0], a[1], g_direction))
        return (len(_trace) == 5 and _trace[0] == ("node_made", b) and _trace[1] == ("lookup", b, 1000)
                and implies(ok, _trace[2] == ("child_added", g_direction, 1000))
                and implies(not ok, _trace[2] == ("broken", (a, b)))
                and _trace[3] == ("queued", 1000, g_old.children[0][0], g_old.children[0][1])
                and _trace[4] == ("queued", 1000, g_old.children[1][0], g_old.children[1][1]))


def working_chip(machine, c):
    return 0 <= c[0] < machine.width and 0 <= c[1] < machine.height and c not in machine.dead_chips


@contract("rig/place_and_route/route/ner.py::copy_and_disconnect_tree@whilebody:0", variant="dead_chip")
class CopyTreeNodeOnDeadChip:
    """a node of the old tree on a chip that is NOT working: no node is made for it, nothing is hung or recorded for it, and its
    children are queued with ITS parent as their parent (they will be joined to it directly or be recorded as broken)"""
    properties = ("C03", "C01")
    params = dict(to_visit=TRec("Queue"), machine=MACHINE, new_lookup=TRec("Lookup"), broken_links=TRec("Broken"), new_root=TOpt(TInt()),
                  g_parent=TRec("RoutingTree", ident=TInt(0, 999), chip=T2, children=TRec("Children")), g_direction=TInt(0, 5), g_old=OLDNODE)
    fragment_result = ()
    fragment_head = "while to_visit:"
    modular = ("rig/place_and_route/route/utils.py::links_between",)
    externals = CopyTreeNode.externals
    options = {"int_class": "rig/links.py::Links", "no_merge": True}

    def native(machine):
        raise __import__("pyvc.replay", fromlist=["OutsideHarness"]).OutsideHarness()

    def requires(machine, g_parent, g_old):
        return not working_chip(machine, g_old.chip)

    def ensures_skipped_and_its_children_handed_to_its_parent(g_parent, g_old, _trace):
        return (len(_trace) == 2 and _trace[0] == ("queued", g_parent.ident, g_old.children[0][0], g_old.children[0][1])
                and _trace[1] == ("queued", g_parent.ident, g_old.children[1][0], g_old.children[1][1]))


# ---- route(): the leaves hung on the tree for one sink of a net (fragment) ------------------------------------------------------------
CORES = TOpt(TRec("slice", start=TInt(0, 17), stop=TInt(0, 18)))


def _placement_of(E, obj, args, kwargs, st, node):
    s = st.copy()
    s.trace = _ListV(s.trace.items + (("placement_of", args[0]),))
    return [(s, st.env["g_chip"], None)]


def _lookup_get(E, obj, args, kwargs, st, node):
    s = st.copy()
    s.trace = _ListV(s.trace.items + (("node_of", args[0]),))
    return [(s, ObjV("RoutingTree", {"ident": 5, "children": ObjV("Leaves", {})}), None)]


def _endpoint_has(E, obj, args, kwargs, st, node):
    return [(st, st.env["g_constrained"], None)]


def _endpoint_get(E, obj, args, kwargs, st, node):
    return [(st, st.env["g_route"], None)]


def _alloc_get(E, obj, args, kwargs, st, node):
    return [(st, ObjV("VertexAlloc", {"of": args[0]}), None)]


def _valloc_get(E, obj, args, kwargs, st, node):
    return [(st, st.env["g_cores"], None)]


def _leaf_add(E, obj, args, kwargs, st, node):
    s = st.copy()
    s.trace = _ListV(s.trace.items + (("leaf",) + tuple(args[0]),))
    return [(s, _NONE, None)]


@contract("rig/place_and_route/route/ner.py::route@forbody:2")
class RouteSinkLeaves:
    """one sink of a net: its leaves are hung on the tree node of the chip the SINK is placed on; a sink with a route-endpoint
    constraint gets exactly one leaf, the constrained route - whatever cores it may also have been allocated; otherwise one leaf
    per allocated core, `Routes.core(c)` for exactly the cores c of its allocated range, in order (none for an empty range);
    a sink with neither gets one leaf without a route (the packet is absorbed there)"""
    properties = ("C03", "C01")
    params = dict(sink=TInt(), placements=TRec("Placements"), lookup=TRec("NodeLookup"), route_to_endpoint=TRec("Endpoints"), allocations=TRec("Allocations"),
                  core_resource=TInt(), g_chip=T2, g_constrained=TBool(), g_route=TInt(0, 23), g_cores=CORES)
    fragment_result = ()
    fragment_head = "for sink in net.sinks:"
    externals = {"Placements.__getitem__": _placement_of, "NodeLookup.__getitem__": _lookup_get, "Endpoints.__contains__": _endpoint_has,
                 "Endpoints.__getitem__": _endpoint_get, "Allocations.get": _alloc_get, "VertexAlloc.get": _valloc_get, "Leaves.append": _leaf_add}
    loop_unroll = {1: 4}
    options = {"int_class": "rig/routing_table/entries.py::Routes", "no_merge": True}
    assumptions = ["placements, the tree's chip lookup, the endpoint table and the allocations are opaque (their answers are ghosts, what is asked and hung is "
                   "recorded); the allocated range holds at most 4 cores here (the loop over it is unrolled under that bound)"]

    def native(sink):
        raise __import__("pyvc.replay", fromlist=["OutsideHarness"]).OutsideHarness()

    def requires(g_cores):
        return g_cores is None or unopt3(g_cores).stop - unopt3(g_cores).start <= 4

    def ensures_leaves_on_the_sinks_own_chip_constraint_first_then_exactly_the_allocated_cores(sink, g_chip, g_constrained, g_route, g_cores, _trace):
        n = len(_trace)
        k = 0 if g_cores is None else max(0, unopt3(g_cores).stop - unopt3(g_cores).start)
        return (n >= 2 and _trace[0] == ("placement_of", sink) and _trace[1] == ("node_of", g_chip)
                and implies(g_constrained, n == 3 and _trace[2] == ("leaf", g_route, sink))
                and implies(not g_constrained and g_cores is None, n == 3 and _trace[2] == ("leaf", None, sink))
                and implies(not g_constrained and g_cores is not None,
                            n == 2 + k and all(implies(i < k, _trace[min(2 + i, n - 1)] == ("leaf", 6 + unopt3(g_cores).start + i, sink)) for i in range(4))))


def unopt3(x):
    return x


# ---- Machine.iter_links / Machine.__iter__: one candidate of the enumeration (fragments; the real __contains__ inlined) -----------------


@contract("rig/place_and_route/machine.py::Machine.iter_links@forbody:2")
class MachineIterLinksStep:
    """one (chip, link) candidate: it is listed exactly when it is a working link of a working chip inside the machine - the links
    of dead chips are not working links, whether or not they are listed as dead"""
    properties = ("C14", "C03")
    params = dict(self=MACHINE, x=TInt(), y=TInt(), link=TInt(0, 5))
    fragment_result = ()
    fragment_head = "for link in Links:"
    yields = TTuple(TInt(), TInt(), TInt(0, 5))
    options = {"int_class": "rig/links.py::Links", "no_merge": True}

    def native(x):
        raise __import__("pyvc.replay", fromlist=["OutsideHarness"]).OutsideHarness()

    def ensures_listed_exactly_when_working(self, x, y, link, _yielded):
        return (implies(working(self, x, y, link), len(_yielded) == 1 and _yielded[0] == (x, y, link))
                and implies(not working(self, x, y, link), len(_yielded) == 0))


@contract("rig/place_and_route/machine.py::Machine.__iter__@forbody:1")
class MachineIterStep:
    """one chip position: listed exactly when it lies inside the machine and is not dead"""
    properties = ("C14", "C03")
    params = dict(self=MACHINE, x=TInt(), y=TInt())
    fragment_result = ()
    fragment_head = "for y in range(self.height):"
    yields = TTuple(TInt(), TInt())
    options = {"no_merge": True}

    def native(x):
        raise __import__("pyvc.replay", fromlist=["OutsideHarness"]).OutsideHarness()

    def ensures_listed_exactly_when_a_working_chip(self, x, y, _yielded):
        ok = 0 <= x < self.width and 0 <= y < self.height and (x, y) not in self.dead_chips
        return implies(ok, len(_yielded) == 1 and _yielded[0] == (x, y)) and implies(not ok, len(_yielded) == 0)


# ---- route(): one net - which tree is built, whether it is repaired, under which net it is filed (fragment: the body of the loop over nets)
def _named(names, args, kwargs):
    """recorded arguments BY PARAMETER NAME (position or keyword is the code's business)"""
    d = dict(zip(names, args))
    d.update(kwargs)
    return d


def _ner_net_rec(E, args, kwargs, st, node):
    a = _named(("source", "destinations", "width", "height", "wrap_around", "radius"), args, kwargs)
    s = st.copy()
    s.trace = _ListV(s.trace.items + (("ner_net", a["source"], a["destinations"], a["width"], a["height"], a.get("wrap_around", False), a.get("radius", 10)),))
    return [(s, (ObjV("RoutingTree", {"ident": 101}), ObjV("NodeLookup", {"ident": 102})))]


def _has_dead_rec(E, args, kwargs, st, node):
    a = _named(("root", "machine"), args, kwargs)
    s = st.copy()
    s.trace = _ListV(s.trace.items + (("uses_dead_hardware?", a["root"].fields["ident"], a["machine"].fields["ident"]),))
    return [(s, st.env["g_dead"])]


def _avoid_rec(E, args, kwargs, st, node):
    a = _named(("root", "machine", "wrap_around"), args, kwargs)
    s = st.copy()
    s.trace = _ListV(s.trace.items + (("repair", a["root"].fields["ident"], a["machine"].fields["ident"], a.get("wrap_around", False)),))
    return [(s, (ObjV("RoutingTree", {"ident": 201}), ObjV("NodeLookup", {"ident": 202})))]


def _lookup_get_id(E, obj, args, kwargs, st, node):
    s = st.copy()
    s.trace = _ListV(s.trace.items + (("node_of", obj.fields["ident"], args[0]),))
    return [(s, ObjV("RoutingTree", {"ident": 5, "children": ObjV("Leaves", {})}), None)]


def _routes_set(E, obj, args, kwargs, st, node):
    s = st.copy()
    s.trace = _ListV(s.trace.items + (("filed", args[0].fields["ident"], args[1].fields["ident"]),))
    return [(s, _NONE, obj)]


@contract("rig/place_and_route/route/ner.py::route@forbody:1")
class RouteOneNet:
    """one net (here with one sink): the tree is built - for a perfect machine of THIS machine's width and height (the search radius and
    the wrap-around hint only steer the heuristic: whatever they are, the test and repair below decide what is returned) - from the chip
    the net's SOURCE is placed on to the chips its SINKS are placed on; it is tested against this
    machine and, exactly when the test says it uses dead hardware, replaced by the repaired tree (made from the tree just built, for
    this machine); the sink's leaves are hung on the node the tree FINALLY used holds for the sink's chip; and that final tree is
    filed under this net"""
    properties = ("C03", "C01")
    params = dict(net=TRec("Net", ident=TInt(0, 99), source=TInt(), sinks=TList(TInt())), placements=TRec("Placements"),
                  machine=TRec("Machine", ident=TInt(0, 9), width=TInt(1, 256), height=TInt(1, 256)), wrap_around=TBool(), radius=TInt(0, 100),
                  route_to_endpoint=TRec("Endpoints"), allocations=TRec("Allocations"), core_resource=TInt(), routes=TRec("Routes"),
                  g_chip=T2, g_constrained=TBool(), g_route=TInt(0, 23), g_cores=CORES, g_dead=TBool())
    fragment_result = ()
    fragment_head = "for net in nets:"
    externals = {"Placements.__getitem__": _placement_of, "NodeLookup.__getitem__": _lookup_get_id, "Endpoints.__contains__": _endpoint_has,
                 "Endpoints.__getitem__": _endpoint_get, "Allocations.get": _alloc_get, "VertexAlloc.get": _valloc_get, "Leaves.append": _leaf_add,
                 "def:ner_net": _ner_net_rec, "def:route_has_dead_links": _has_dead_rec, "def:avoid_dead_links": _avoid_rec,
                 "Routes.__setitem__": _routes_set}
    loop_unroll = {1: 2, 2: 4}
    options = {"int_class": "rig/routing_table/entries.py::Routes", "no_merge": True}
    assumptions = ["ner_net, route_has_dead_links (own contract) and avoid_dead_links are opaque and recorded; placements, the trees' chip lookup, the "
                   "endpoint table and the allocations as in RouteSinkLeaves; one sink, at most 4 allocated cores"]

    def native(x):
        raise __import__("pyvc.replay", fromlist=["OutsideHarness"]).OutsideHarness()

    def requires(g_cores):
        return g_cores is None or unopt3(g_cores).stop - unopt3(g_cores).start <= 4

    def ensures_built_for_this_net_on_this_machine_repaired_iff_needed_and_filed_under_this_net(net, machine, wrap_around, radius, g_chip, g_dead, _trace):
        key = [t for t in _trace if t[0] in ("ner_net", "uses_dead_hardware?", "repair", "filed")]
        nodes = [t for t in _trace if t[0] == "node_of"]
        final = 201 if g_dead else 101
        return (("placement_of", net.source) in _trace and ("placement_of", net.sinks[0]) in _trace
                and len(key) == (4 if g_dead else 3)
                and key[0][0] == "ner_net" and key[0][1] == g_chip and len(key[0][2]) == 1 and g_chip in key[0][2]
                and key[0][3:5] == (machine.width, machine.height)
                and key[1] == ("uses_dead_hardware?", 101, machine.ident)
                and implies(g_dead, key[2][:3] == ("repair", 101, machine.ident))
                and key[len(key) - 1] == ("filed", net.ident, final)
                and len(nodes) == 1 and nodes[0][1] == final + 1)
