"""C03 -- link primitives used by the router (rig/place_and_route/route/utils.py::links_between,
with the real Machine.__contains__ inlined).  The tree construction and repair (object graphs)
are decided by bounded/c03_route.py."""
from pyvc.spec import contract, lemma
from pyvc.values import TInt, TTuple, TRec, TSet
from pyvc.speclib import implies, iff, ite
from rig.place_and_route.machine import Machine     # noqa: F401  (class resolution for the engine)

T2 = TTuple(TInt(), TInt())
T3 = TTuple(TInt(), TInt(), TInt())
MACHINE = TRec("Machine", width=TInt(1, None), height=TInt(1, None), dead_chips=TSet(T2), dead_links=TSet(T3))


def link_vec(l):
    return ite(l == 0, (1, 0), ite(l == 1, (1, 1), ite(l == 2, (0, 1),
               ite(l == 3, (-1, 0), ite(l == 4, (-1, -1), (0, -1))))))


def working(machine, x, y, l):
    return (0 <= x < machine.width and 0 <= y < machine.height and (x, y) not in machine.dead_chips
            and (x, y, l) not in machine.dead_links)


@contract("rig/place_and_route/route/utils.py::links_between")
class LinksBetween:
    properties = ("C03", "C11")      # (C11: links, vectors and the torus size are mutually consistent)
    params = dict(a=T2, b=T2, machine=MACHINE)
    options = {"int_class": "rig/links.py::Links"}

    def native(a, b, machine):
        from rig.place_and_route import Machine, Cores
        from rig.place_and_route.route.utils import links_between
        from rig.links import Links
        m = Machine(machine.width, machine.height, dead_chips=set(map(tuple, machine.dead_chips)),
                    dead_links=set((x, y, Links(l)) for x, y, l in machine.dead_links if 0 <= l <= 5))
        return links_between(a, b, m)

    def ensures_exactly_the_working_links_that_lead_from_a_to_b(a, b, machine, result):
        return all(iff(l in result,
                       (a[0] + link_vec(l)[0]) % machine.width == b[0]
                       and (a[1] + link_vec(l)[1]) % machine.height == b[1]
                       and working(machine, a[0], a[1], l))
                   for l in range(6))
