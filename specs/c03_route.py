"""C03 -- link primitives used by the router (rig/place_and_route/route/utils.py::links_between,
with the real Machine.__contains__ inlined).  The tree construction and repair (object graphs)
are decided by bounded/c03_route.py."""
from pyvc.spec import contract, lemma
from pyvc.values import TInt, TTuple, TRec, TSet
from pyvc.speclib import implies, iff, ite
from rig.place_and_route.machine import Machine     # noqa: F401  (class resolution for the engine)

T2 = TTuple(TInt(), TInt())
T3 = TTuple(TInt(), TInt(), TInt())
MACHINE = TRec("Machine", width=TInt(1, None), height=TInt(1, None), dead_chips=TSet(T2), dead_links=TSet(T3))


def link_vec(l):
    return ite(l == 0, (1, 0), ite(l == 1, (1, 1), ite(l == 2, (0, 1),
               ite(l == 3, (-1, 0), ite(l == 4, (-1, -1), (0, -1))))))


def working(machine, x, y, l):
    return (0 <= x < machine.width and 0 <= y < machine.height and (x, y) not in machine.dead_chips
            and (x, y, l) not in machine.dead_links)


@contract("rig/place_and_route/route/utils.py::links_between")
class LinksBetween:
    properties = ("C03", "C11")      # (C11: links, vectors and the torus size are mutually consistent)
    params = dict(a=T2, b=T2, machine=MACHINE)
    options = {"int_class": "rig/links.py::Links"}

    def native(a, b, machine):
        from rig.place_and_route import Machine, Cores
        from rig.place_and_route.route.utils import links_between
        from rig.links import Links
        m = Machine(machine.width, machine.height, dead_chips=set(map(tuple, machine.dead_chips)),
                    dead_links=set((x, y, Links(l)) for x, y, l in machine.dead_links if 0 <= l <= 5))
        return links_between(a, b, m)

    def ensures_exactly_the_working_links_that_lead_from_a_to_b(a, b, machine, result):
        return all(iff(l in result,
                       (a[0] + link_vec(l)[0]) % machine.width == b[0]
                       and (a[1] + link_vec(l)[1]) % machine.height == b[1]
                       and working(machine, a[0], a[1], l))
                   for l in range(6))


# ---- "does this tree use dead hardware": the test that decides whether a tree is repaired ------------------------------
from pyvc.values import TSeq, TSmallSet, TBool   # noqa: E402
from pyvc.speclib import exists_range, select, seq_len   # noqa: E402

HOP = TTuple(TInt(), T2, TSmallSet(list(range(6))))        # what RoutingTree.traverse() yields: (direction, chip, outgoing links)


def _traverse(E, obj, args, kwargs, st, node):
    """RoutingTree.traverse(): the hops of the tree as a sequence (ghost input g_hops)"""
    return [(st, st.env["g_hops"], None)]


@contract("rig/place_and_route/route/ner.py::route_has_dead_links")
class RouteHasDeadLinks:
    """(also serves C01: a tree that uses dead hardware must be recognised, or packets are sent into it)
    True exactly when some hop of the tree leaves a chip by a link that is not a working link of a working chip inside the
    machine - in particular a hop out of a dead chip counts whether or not any link is listed as dead"""
    properties = ("C03", "C01")
    params = dict(root=TRec("RoutingTree"), machine=MACHINE, g_hops=TSeq(HOP))
    result = TBool()
    externals = {"RoutingTree.traverse": _traverse}
    options = {"int_class": "rig/links.py::Links", "var_shapes": {"direction": TInt(), "x": TInt(), "y": TInt(), "routes": TSmallSet(list(range(6)))}}
    loop_headers = {0: "for direction, (x, y), routes in root.traverse():"}
    assumptions = ["RoutingTree.traverse (generator over an object graph) is external: the hops it yields are a ghost sequence; routes are links (cores never leave a chip)"]

    def native(machine, g_hops):
        raise __import__("pyvc.replay", fromlist=["OutsideHarness"]).OutsideHarness()

    def inv_0_no_dead_hop_so_far(g_hops, machine, _k0):
        return not exists_range(0, _k0, lambda i: any(l in select(g_hops, i)[2] and not working(machine, select(g_hops, i)[1][0], select(g_hops, i)[1][1], l)
                                                      for l in range(6)))

    def ensures_true_iff_some_hop_uses_dead_hardware(g_hops, machine, result):
        return iff(result, exists_range(0, seq_len(g_hops), lambda i: any(
            l in select(g_hops, i)[2] and not working(machine, select(g_hops, i)[1][0], select(g_hops, i)[1][1], l) for l in range(6))))


# ---- the repair search (a_star): one neighbour of the chip taken from the heap (fragment) -----------------------------------------
from pyvc.values import ListV as _ListV, NONE as _NONE   # noqa: E402
from pyvc.speclib import uf   # noqa: E402
import z3 as _z3   # noqa: E402


def _uf3(name, *terms):
    return _z3.Function("uf_" + name, *([_z3.IntSort()] * (len(terms) + 1)))(*[t if _z3.is_expr(t) else _z3.IntVal(int(t)) for t in terms])


def _visited_contains(E, obj, args, kwargs, st, node):
    x, y = args[0]
    return [(st, _uf3("seen", x, y) == 1, None)]


def _visited_set(E, obj, args, kwargs, st, node):
    s = st.copy()
    s.trace = _ListV(s.trace.items + (("visited", args[0], args[1]),))
    return [(s, _NONE, None)]


def _heappush(E, args, kwargs, st, node):
    s = st.copy()
    s.trace = _ListV(s.trace.items + (("push", args[1]),))
    return [(s, _NONE)]


def _heuristic(E, obj, args, kwargs, st, node):
    x, y = args[0]
    return [(st, _uf3("h", x, y), None)]


@contract("rig/place_and_route/route/ner.py::a_star@forbody:0")
class AStarNeighbour:
    """one direction around the chip `node` taken from the heap: the chip looked at is the one FROM which a packet sent over
    that link arrives at `node` (modulo the machine's own width and height - each coordinate with its own dimension); it is
    taken into the search exactly when that link of that chip is working and the chip was not seen before, and then it is
    remembered with exactly (the link, node) - the hop the repaired tree will use - and queued with its own heuristic value"""
    properties = ("C03", "C01")
    params = dict(node=T2, neighbour_link=TInt(0, 5), machine=MACHINE, visited=TRec("Visited"), to_visit=TRec("Heap"), heuristic=TRec("Heuristic"))
    fragment_result = ()
    fragment_head = "for neighbour_link in Links:"
    externals = {"Visited.__contains__": _visited_contains, "Visited.__setitem__": _visited_set, "heappush": _heappush, "Heuristic.__call__": _heuristic}
    options = {"int_class": "rig/links.py::Links"}
    assumptions = ["the visited map, the heap and the heuristic are opaque here (what is stored / pushed is recorded; `in visited` is a function of the chip)"]

    def native(node):
        raise __import__("pyvc.replay", fromlist=["OutsideHarness"]).OutsideHarness()

    def requires(node, machine):
        return 0 <= node[0] < machine.width and 0 <= node[1] < machine.height

    def ensures_looks_at_the_chip_the_link_comes_from_and_takes_it_iff_usable_and_new(node, neighbour_link, machine, _trace):
        return taken_iff(node, neighbour_link, machine, _trace)


def taken_iff(node, l, machine, _trace):
    # (nx, ny): the unique chip of the machine with (nx, ny) + vector(link) == node modulo (width, height)
    nx = (node[0] - link_vec(l)[0]) % machine.width
    ny = (node[1] - link_vec(l)[1]) % machine.height
    take = working(machine, nx, ny, l) and not uf("seen", nx, ny) == 1
    return (implies(not take, len(_trace) == 0)
            and implies(take, len(_trace) == 2 and _trace[0] == ("visited", (nx, ny), (l, node))
                        and _trace[1] == ("push", (uf("h", nx, ny), (nx, ny)))))
