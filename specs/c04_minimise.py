"""C04 -- routing table minimisation preserves routing.  Deductive part: the key/mask
vocabulary (rig/routing_table/utils.py::intersect), the meta-lemmas that turn the minimisers'
local checks into first-match preservation, and the try-each-method front end.  The minimisers'
loops over tables of entry objects are decided by the bounded layer (bounded/c04_tables.py)."""
from pyvc.spec import contract, lemma
from pyvc.values import TInt, TBool, TBV, TOpt, TSeq, TTuple
from pyvc.speclib import implies, iff, forall_keys, exists_keys, forall_int

KEY = TBV(40, 0, 0xffffffff)      # 32-bit keys/masks as signed 40-bit vectors (no overflow possible)


def matches(k, key, mask):
    return (k & mask) == key


def well_formed(key, mask):
    return (key & ~mask) == 0


@contract("rig/routing_table/utils.py::intersect")
class Intersect:
    properties = ("C04", "C01")
    bv = 40
    params = dict(key_a=KEY, mask_a=KEY, key_b=KEY, mask_b=KEY)

    def requires(key_a, mask_a, key_b, mask_b):
        return well_formed(key_a, mask_a) and well_formed(key_b, mask_b)

    def ensures_true_iff_the_union_key_matches_both(key_a, mask_a, key_b, mask_b, result):
        w = key_a | key_b
        return iff(result, matches(w, key_a, mask_a) and matches(w, key_b, mask_b))


@lemma("intersect_iff_a_common_key_exists")
class IntersectCommonKey:
    """(key_a & mask_b) == (key_b & mask_a) holds exactly when some key matches both entries
    (witness key_a | key_b); in particular two entries that match the same key intersect.  This is
    what makes 'no later entry intersects a removed entry' imply 'no later entry matches a key the
    removed entry matched', and 'no entry above the merge position is covered' sound."""
    properties = ("C04", "C01")
    bv = 40
    params = dict(key_a=KEY, mask_a=KEY, key_b=KEY, mask_b=KEY)

    def assuming(key_a, mask_a, key_b, mask_b):
        return well_formed(key_a, mask_a) and well_formed(key_b, mask_b)

    def claim_common_key_implies_intersect(key_a, mask_a, key_b, mask_b):
        return forall_keys(lambda k: implies(matches(k, key_a, mask_a) and matches(k, key_b, mask_b),
                                             (key_a & mask_b) == (key_b & mask_a)))

    def claim_intersect_implies_common_key(key_a, mask_a, key_b, mask_b):
        return implies((key_a & mask_b) == (key_b & mask_a),
                       matches(key_a | key_b, key_a, mask_a) and matches(key_a | key_b, key_b, mask_b))


@lemma("merged_entry_covers_its_members")
class MergeCovers:
    """ordered_covering._Merge folds keys and masks as  any_ones |= key, all_ones &= key,
    all_selected &= mask; any_diff = any_ones ^ all_ones; mask = all_selected & ~any_diff;
    key = all_ones & mask.  Step lemma: the folded entry matches every key a member matches."""
    properties = ("C04", "C01")
    bv = 40
    params = dict(any_ones=KEY, all_ones=KEY, all_selected=KEY, key=KEY, mask=KEY)

    def assuming(any_ones, all_ones, all_selected, key, mask):
        # `key/mask` is a member already folded in: its ones are in any_ones, all_ones is below
        # its key, all_selected is below its mask
        return (well_formed(key, mask) and (key & ~any_ones) == 0 and (all_ones & ~key) == 0
                and (all_selected & ~mask) == 0)

    def claim(any_ones, all_ones, all_selected, key, mask):
        m = all_selected & ~(any_ones ^ all_ones)
        return forall_keys(lambda k: implies(matches(k, key, mask), (k & m) == (all_ones & m)))


# ---- default-route removal: the per-entry decision ------------------------------------------------
from pyvc.values import TSmallSet, TRec, TSeq   # noqa: E402
from pyvc.speclib import forall_range, select, seq_len, opaque   # noqa: E402

ROUTES = list(range(24))
ENTRY = TRec("RoutingTableEntry", route=TSmallSet(ROUTES), key=KEY, mask=KEY, sources=TSmallSet([None] + ROUTES))
TABLE = TSeq(ENTRY)


@opaque
def no_later_alias(table, i, key, mask):
    """no entry below position i can match a key that (key, mask) matches"""
    return forall_range(i + 1, seq_len(table), lambda j: (key & select(table, j).mask) != (select(table, j).key & mask))


def straight_through(entry):
    """arrives from exactly one known link and leaves by exactly the opposite link"""
    return (len(entry.sources) == 1 and None not in entry.sources and len(entry.route) == 1
            and any(s in entry.sources and ((s + 3) % 6) in entry.route for s in range(6)))


def _mk_entry(e):
    from rig.routing_table import RoutingTableEntry, Routes
    return RoutingTableEntry({Routes(r) for r in e.route}, e.key, e.mask, {None if s is None else Routes(s) for s in e.sources})


@contract("rig/routing_table/remove_default_routes.py::_is_defaultable")
class IsDefaultable:
    properties = ("C04", "C01")
    params = dict(i=TInt(0, None), entry=ENTRY, table=TABLE, check_for_aliases=TBool())
    result = TBool()
    options = {"int_class": "rig/routing_table/entries.py::Routes", "no_merge": True}

    def native(i, entry, table, check_for_aliases):
        from rig.routing_table.remove_default_routes import _is_defaultable
        return _is_defaultable(i, _mk_entry(entry), [_mk_entry(e) for e in table], check_for_aliases)

    def requires(i, entry, table, check_for_aliases):
        return well_formed(entry.key, entry.mask)

    def ensures_removable_iff_hardware_default_routing_does_the_same(i, entry, table, check_for_aliases, result):
        # ... and (when asked to check) no LATER entry can match a key this entry matches
        return iff(result, straight_through(entry) and (not check_for_aliases or no_later_alias(table, i, entry.key, entry.mask)))


# ---- default-route removal: the table loop -----------------------------------------------------------
from pyvc.values import TOpt   # noqa: E402
from pyvc.speclib import exists_range, unopt, opaque   # noqa: E402



@opaque
def removable(table, i, check):
    """entry i may be left to hardware default routing (the contract of _is_defaultable).  Opaque
    inside the quantified invariants; its definition is used at the one index handled per iteration."""
    e = select(table, i)
    return straight_through(e) and (not check or no_later_alias(table, i, e.key, e.mask))


@contract("rig/routing_table/remove_default_routes.py::minimise")
class RemoveDefaultRoutes:
    """The result is the order-preserving sub-table of exactly the entries that may NOT be left to
    default routing (ghost g_idx = indices kept).  With lemma intersect_iff_a_common_key_exists this
    gives C04 for default-route removal on any ordered table: a key whose first match i is kept is
    still first-matched by the image of i (everything above it in the result was above it before and
    did not match); if i was removed, no later entry matches the key (it would intersect i) and no
    earlier one does, so hardware default routing takes over, which is what entry i did."""
    properties = ("C04", "C01")
    params = dict(table=TABLE, target_length=TOpt(TInt(0, None)), check_for_aliases=TBool())
    modular = ("rig/routing_table/remove_default_routes.py::_is_defaultable",)
    options = {"var_shapes": {"new_table": TABLE}, "int_class": "rig/routing_table/entries.py::Routes"}
    ghost_vars = {"g_idx": TSeq(TInt())}
    ghost_updates = {"new_table.append(entry)": ["gupd_remember_the_index_kept"]}
    raises = {"MinimisationFailedError": None}
    loop_headers = {0: "for i, entry in enumerate(table):"}

    def native(table, target_length, check_for_aliases):
        from rig.routing_table.remove_default_routes import minimise
        from pyvc.replay import OutsideHarness
        raise OutsideHarness()        # the ghost index map has no native counterpart; see bounded/c04_tables.py

    def gupd_remember_the_index_kept(g_idx, i):
        return {"g_idx": g_idx + [i]}

    def requires(table, target_length, check_for_aliases):
        return forall_range(0, seq_len(table), lambda j: well_formed(select(table, j).key, select(table, j).mask))

    def inv_0_one_index_per_kept_entry(new_table, g_idx, _k0):
        return seq_len(new_table) == seq_len(g_idx) and seq_len(g_idx) <= _k0

    def inv_0_kept_entries_are_the_indexed_ones(new_table, g_idx, table, _k0):
        return forall_range(0, seq_len(g_idx), lambda a: 0 <= select(g_idx, a) < _k0
                            and select(new_table, a) == select(table, select(g_idx, a)))

    def inv_0_order_preserved(g_idx):
        return forall_range(0, seq_len(g_idx) - 1, lambda a: select(g_idx, a) < select(g_idx, a + 1))

    def inv_0_last_index_below_k(g_idx, _k0):
        return seq_len(g_idx) == 0 or select(g_idx, seq_len(g_idx) - 1) < _k0

    def inv_0_nothing_removable_is_kept(g_idx, table, old_check_for_aliases):
        return forall_range(0, seq_len(g_idx), lambda a: not removable(table, select(g_idx, a), old_check_for_aliases))

    def inv_0_everything_else_is_kept(g_idx, table, old_check_for_aliases, _k0):
        return forall_range(0, _k0, lambda i: removable(table, i, old_check_for_aliases)
                            or exists_range(0, seq_len(g_idx), lambda a: select(g_idx, a) == i))

    # the decision taken for entry i in this iteration is the right one -- also when the
    # same-mask/distinct-keys shortcut has switched the alias check off (no two entries of such a
    # table intersect).  This is where the definition of `removable` is used.
    ghost_asserts = {"""if not _is_defaultable(i, entry, table, check_for_aliases):
            new_table.append(entry)""": ["ghost_entry_kept_iff_not_removable"]}

    def ghost_entry_kept_iff_not_removable(table, i, old_check_for_aliases, g_idx):
        kept = seq_len(g_idx) > 0 and select(g_idx, seq_len(g_idx) - 1) == i
        return kept == (not removable(table, i, old_check_for_aliases))

    def raises_MinimisationFailedError(target_length, local_new_table, exc_args):
        return (target_length is not None and unopt(target_length) < seq_len(local_new_table)
                and exc_args[0] == unopt(target_length) and exc_args[1] == seq_len(local_new_table))

    def ensures_never_longer_and_meets_the_target(table, target_length, result):
        return seq_len(result) <= seq_len(table) and (target_length is None or seq_len(result) <= unopt(target_length))

    def ensures_order_preserving_subtable(table, result, g_idx):
        return (seq_len(result) == seq_len(g_idx)
                and forall_range(0, seq_len(g_idx), lambda a: 0 <= select(g_idx, a) < seq_len(table)
                                 and select(result, a) == select(table, select(g_idx, a)))
                and forall_range(0, seq_len(g_idx) - 1, lambda a: select(g_idx, a) < select(g_idx, a + 1)))

    def ensures_keeps_exactly_the_entries_default_routing_cannot_replace(table, old_check_for_aliases, g_idx):
        # (removable(...) is the predicate of _is_defaultable's contract, with the CALLER's flag)
        # stated with the caller's check_for_aliases (the same-mask/distinct-keys shortcut must not matter)
        return (forall_range(0, seq_len(g_idx), lambda a: not removable(table, select(g_idx, a), old_check_for_aliases))
                and forall_range(0, seq_len(table), lambda i: removable(table, i, old_check_for_aliases)
                                 or exists_range(0, seq_len(g_idx), lambda a: select(g_idx, a) == i)))


# ---- the try-each-method front end ---------------------------------------------------------------------
from pyvc.values import TList, TRec as _TRec, ListV as _ListV, ExcV as _ExcV, NONE as _NONE   # noqa: E402
from rig.routing_table import MinimisationFailedError   # noqa: E402,F401  (class resolution for the engine)

ANYTABLE = TSeq(TInt())           # the front end only looks at lengths and hands tables through


@contract("rig/routing_table/minimise.py::_identity")
class Identity:
    properties = ("C04", "C01")
    params = dict(table=ANYTABLE, target_length=TOpt(TInt(0, None)))
    raises = {"MinimisationFailedError": None}

    def raises_MinimisationFailedError(table, target_length, exc_args):
        # NB: a table of exactly the target length is refused here (and then accepted from the next
        # method, which returns it unchanged or smaller)
        return target_length is not None and seq_len(table) >= unopt(target_length) and exc_args == (unopt(target_length), seq_len(table))

    def ensures_returns_the_table_itself(table, target_length, result):
        return result == table and (target_length is None or seq_len(table) < unopt(target_length))


def _method_call(E, obj, args, kwargs, st, node):
    """Assumed contract of a minimisation method f(table, target): it returns its result table
    (ghost input g_r<n>: no longer than the input, within the target if one is given) or raises
    MinimisationFailedError(target, final_length = ghost g_f<n>)."""
    from pyvc.engine import Raised
    n = obj.fields["n"]
    r = st.env["g_r%d" % n]
    fl = st.env["g_f%d" % n]
    fails = st.env["g_fail%d" % n]
    ok = st.assume(z3.Not(fails))
    bad = st.assume(fails)
    return [(ok, r, None), (bad, Raised(_ExcV("MinimisationFailedError", (args[1], fl))), None)]


import z3   # noqa: E402
METHOD = lambda n: _TRec("Method", n=TConst(n))    # noqa: E731
from pyvc.values import TConst   # noqa: E402


@contract("rig/routing_table/minimise.py::minimise_table")
class MinimiseTable:
    """two methods after the built-in identity (the default is default-route removal, then ordered
    covering); each method is an opaque callable with the assumed contract of _method_call"""
    properties = ("C04", "C01")
    params = dict(table=ANYTABLE, target_length=TOpt(TInt(0, None)), methods=TTuple(METHOD(0), METHOD(1)),
                  g_r0=ANYTABLE, g_r1=ANYTABLE, g_f0=TInt(0, None), g_f1=TInt(0, None), g_fail0=TBool(), g_fail1=TBool())
    externals = {"Method.__call__": _method_call}
    raises = {"MinimisationFailedError": None}
    options = {"no_merge": True}
    assumptions = ["each minimisation method either returns a table no longer than its input that meets the target (if given) and routes every key as the input does, or raises MinimisationFailedError(final_length) - discharged separately for default-route removal, bounded for ordered covering"]

    def native(table, target_length, methods, g_r0, g_r1, g_f0, g_f1, g_fail0, g_fail1):
        raise __import__("pyvc.replay", fromlist=["OutsideHarness"]).OutsideHarness()

    def requires(table, target_length, g_r0, g_r1, g_f0, g_f1, g_fail0, g_fail1):
        return (seq_len(g_r0) <= seq_len(table) and seq_len(g_r1) <= seq_len(table)
                and (target_length is None or (seq_len(g_r0) <= unopt(target_length) and seq_len(g_r1) <= unopt(target_length)))
                and (target_length is None or (g_f0 > unopt(target_length) and g_f1 > unopt(target_length)))
                and implies(target_length is None, not g_fail0 and not g_fail1))

    def raises_MinimisationFailedError(table, target_length, g_f0, g_f1, g_fail0, g_fail1, exc_args):
        # only if the table itself is too long AND every method failed; reports the best size reached
        return (target_length is not None and seq_len(table) >= unopt(target_length) and g_fail0 and g_fail1
                and exc_args[0] == unopt(target_length) and exc_args[1] == min(seq_len(table), g_f0, g_f1))

    def ensures_returns_a_table_one_of_the_methods_produced(table, g_r0, g_r1, g_fail0, g_fail1, result):
        return result == table or (not g_fail0 and result == g_r0) or (not g_fail1 and result == g_r1)

    def ensures_meets_the_target_or_is_a_shortest(table, target_length, g_r0, g_r1, result):
        return ((target_length is not None and seq_len(result) <= unopt(target_length))
                or (target_length is None and seq_len(result) <= seq_len(table)
                    and seq_len(result) <= seq_len(g_r0) and seq_len(result) <= seq_len(g_r1)))


# ---- ordered covering: generality ------------------------------------------------------------------------
@opaque
def gen(key, mask):
    """generality of an entry = number of X bits (opaque inside quantified clauses)"""
    return sum((1 if ((~key & ~mask) & (1 << i)) != 0 else 0) for i in range(32))


@contract("rig/routing_table/ordered_covering.py::_get_generality")
class GetGenerality:
    properties = ("C04", "C01")
    bv = 40
    params = dict(key=KEY, mask=KEY)

    def ensures_counts_the_x_bits(key, mask, result):
        # an X is a bit that is 0 in both key and mask (the table must be listed by this number)
        return result == sum((1 if ((~key & ~mask) & (1 << i)) != 0 else 0) for i in range(32))

    def ensures_in_range(key, mask, result):
        return 0 <= result <= 32

    def ensures_is_the_generality(key, mask, result):
        return result == gen(key, mask)


# ---- ordered covering: where a merged entry is inserted -------------------------------------------------------
KM = _TRec("RoutingTableEntry", key=KEY, mask=KEY)


def g_at(table, i):
    return gen(select(table, i).key, select(table, i).mask)


@contract("rig/routing_table/ordered_covering.py::_get_insertion_index")
class InsertionIndex:
    """binary search followed by a forward scan: on a table listed in increasing order of generality
    the result splits it into the entries of smaller generality and those of equal or greater one"""
    properties = ("C04", "C01")
    params = dict(routing_table=TSeq(KM), generality=TInt(0, 33))
    modular = ("rig/routing_table/ordered_covering.py::_get_generality",)
    loop_headers = {0: "while pg != generality and bottom < pos < top:", 1: "while (pos < len(routing_table) and"}

    def native(routing_table, generality):
        raise __import__("pyvc.replay", fromlist=["OutsideHarness"]).OutsideHarness()

    def requires(routing_table, generality):
        return forall_int(lambda i, j: implies(0 <= i < j < seq_len(routing_table), g_at(routing_table, i) <= g_at(routing_table, j)))

    def inv_0_search_window(routing_table, generality, bottom, top, pos, pg):
        n = seq_len(routing_table)
        return (0 <= bottom <= pos and pos < top and top <= n and pos < n and pg == g_at(routing_table, pos)
                and (bottom == 0 or g_at(routing_table, bottom) < generality)
                and (top == n or g_at(routing_table, top) > generality))

    def variant_0(bottom, top):
        return top - bottom

    def inv_1_everything_before_is_less_general(routing_table, generality, pos):
        return (0 <= pos <= seq_len(routing_table)
                and forall_range(0, pos, lambda i: g_at(routing_table, i) <= generality))

    def variant_1(routing_table, pos):
        return seq_len(routing_table) - pos

    def ensures_splits_the_table_at_the_generality(routing_table, generality, result):
        n = seq_len(routing_table)
        return (0 <= result <= n
                and forall_range(0, result, lambda i: g_at(routing_table, i) < generality)
                and forall_range(result, n, lambda i: g_at(routing_table, i) >= generality))


# ---- ordered covering: the merge computation of _Merge.__new__, on the real statements (fragments) ---------------------------
def folded(any_ones, all_ones, all_selected, key, mask):
    """member key/mask has been folded into the accumulators"""
    return (key & ~any_ones) == 0 and (all_ones & ~key) == 0 and (all_selected & ~mask) == 0


@contract("rig/routing_table/ordered_covering.py::_Merge.__new__@forbody:0")
class MergeFoldStep:
    fragment_head = "for i in entries:"
    """ONE iteration of `for i in entries:`: the entry is folded in and every member folded before stays folded"""
    properties = ("C04", "C01")
    bv = 40
    params = dict(i=TInt(0, None), routing_table=TABLE, sources=TSmallSet([None] + ROUTES),
                  any_ones=KEY, all_ones=KEY, all_selected=KEY, g_key=KEY, g_mask=KEY)
    fragment_result = ("any_ones", "all_ones", "all_selected", "sources")
    options = {"int_class": "rig/routing_table/entries.py::Routes"}

    def native(i):
        raise __import__("pyvc.replay", fromlist=["OutsideHarness"]).OutsideHarness()

    def requires(i, routing_table, any_ones, all_ones, all_selected, g_key, g_mask):
        return i < seq_len(routing_table) and folded(any_ones, all_ones, all_selected, g_key, g_mask)

    def ensures_the_entry_is_folded_in(i, routing_table, result):
        e = select(routing_table, i)
        return folded(result[0], result[1], result[2], e.key, e.mask)

    def ensures_earlier_members_stay_folded(result, g_key, g_mask):
        return folded(result[0], result[1], result[2], g_key, g_mask)

    def ensures_sources_are_the_union_of_the_members_sources(i, routing_table, sources, result):
        e = select(routing_table, i)
        return all((r in result[3]) == (r in sources or r in e.sources) for r in [None] + ROUTES)


@contract("rig/routing_table/ordered_covering.py::_Merge.__new__@seq:5:4")
class MergeKeyMask:
    """the four statements after the loop (any_zeros, new_xs, mask, key): the merged entry matches every key a folded member
    matches, and its key has no bit outside its mask"""
    properties = ("C04", "C01")
    bv = 40
    params = dict(any_ones=KEY, all_ones=KEY, all_selected=KEY, g_key=KEY, g_mask=KEY)
    fragment_result = ("key", "mask")
    fragment_head = "any_zeros = ~all_ones"

    def native(any_ones):
        raise __import__("pyvc.replay", fromlist=["OutsideHarness"]).OutsideHarness()

    def requires(any_ones, all_ones, all_selected, g_key, g_mask):
        return well_formed(g_key, g_mask) and folded(any_ones, all_ones, all_selected, g_key, g_mask)

    def ensures_the_merged_entry_matches_what_a_member_matches(result, g_key, g_mask):
        return forall_keys(lambda k: implies(matches(k, g_key, g_mask), matches(k, result[0], result[1])))

    def ensures_merged_entry_is_well_formed(result):
        return well_formed(result[0], result[1])


# ---- minimise_tables: one chip of the loop (fragment) ------------------------------------------------------------------
from pyvc.values import ListV as _ListV, NONE as _NONE   # noqa: E402


def _lengths_getitem(E, obj, args, kwargs, st, node):
    s = st.copy()
    s.trace = _ListV(s.trace.items + (("target_of", args[0]),))
    return [(s, st.env["g_target"], None)]


def _minimise_table_ext(E, args, kwargs, st, node):
    """minimise_table(table, target, methods) (its own contract: MinimiseTable): the call is recorded; it returns the ghost
    table g_new or raises MinimisationFailedError"""
    from pyvc.engine import Raised
    s = st.copy()
    s.trace = _ListV(s.trace.items + (("minimise_table",) + tuple(args),))
    ok = s.assume(z3.Not(st.env["g_fail"]))
    bad = s.assume(st.env["g_fail"])
    return [(ok, st.env["g_new"]), (bad, Raised(_ExcV("MinimisationFailedError", (args[1], 0))))]


def _tables_setitem(E, obj, args, kwargs, st, node):
    s = st.copy()
    s.trace = _ListV(s.trace.items + (("store",) + tuple(args),))
    return [(s, _NONE, None)]


@contract("rig/routing_table/minimise.py::minimise_tables@forbody:0")
class MinimiseTablesStep:
    """one chip: ITS table is minimised with ITS target and the methods given - every chip on its own, whatever other chips
    carry - and the result is stored for that chip exactly when it is not empty"""
    properties = ("C04", "C01")
    params = dict(chip=TTuple(TInt(0, 255), TInt(0, 255)), table=ANYTABLE, lengths=_TRec("Lengths"), methods=TInt(), new_tables=_TRec("Dict"),
                  g_target=TOpt(TInt(0, None)), g_new=ANYTABLE, g_fail=TBool())
    fragment_result = ()
    fragment_head = "for chip, table in iteritems(routing_tables):"
    externals = {"Lengths.__getitem__": _lengths_getitem, "def:minimise_table": _minimise_table_ext, "Dict.__setitem__": _tables_setitem}
    raises = {"MinimisationFailedError": None}
    assumptions = ["minimise_table is external here (contract MinimiseTable); the per-chip target lookup and the result dict are recorded"]

    def native(chip):
        raise __import__("pyvc.replay", fromlist=["OutsideHarness"]).OutsideHarness()

    def raises_MinimisationFailedError(chip, g_fail, exc_chip):
        return g_fail and exc_chip == chip          # the failure names this chip

    def ensures_this_chips_table_is_minimised_with_this_chips_target(chip, table, methods, g_target, g_new, g_fail, _trace):
        return (not g_fail and len(_trace) >= 2 and _trace[0] == ("target_of", chip)
                and _trace[1] == ("minimise_table", table, g_target, methods))

    def ensures_stored_for_this_chip_unless_empty(chip, g_new, _trace):
        return ((seq_len(g_new) == 0 and len(_trace) == 2)
                or (seq_len(g_new) > 0 and len(_trace) == 3 and _trace[2] == ("store", chip, g_new)))


# ---- the up-check of ordered covering: one member of a proposed merge (fragment) ------------------------------------------
from pyvc.values import TSet as _TSet, ObjV as _ObjV4   # noqa: E402
from pyvc.speclib import exists_range as _exists_range   # noqa: E402

KM = TRec("RoutingTableEntry", key=KEY, mask=KEY)
MERGE = TRec("_Merge", routing_table=TSeq(KM), entries=_TSet(TInt()), insertion_index=TInt(0, None), goodness=TInt())


def _new_merge(E, args, kwargs, st, node):
    """_Merge(table[, entries]) (its construction is under contract of its own: MergeFoldStep / MergeKeyMask): recorded; the
    merge built from the remaining members is the ghost g_rest, the empty merge the ghost g_empty"""
    s = st.copy()
    if len(args) == 2:
        s.trace = _ListV(s.trace.items + (("merge_of", args[1]),))
        return [(s, st.env["g_rest"])]
    s.trace = _ListV(s.trace.items + (("empty_merge",),))
    return [(s, st.env["g_empty"])]


def shares_a_key(k1, m1, k2, m2):
    """some key is matched by both patterns: they agree on every bit both of them care about"""
    return ((k1 ^ k2) & m1 & m2) == 0


@contract("rig/routing_table/ordered_covering.py::_refine_upcheck@forbody:0")
class UpcheckMember:
    """a member of the merge is taken out exactly when some entry between its present position and the place the merged entry
    would be inserted shares a key with it - WHATEVER the generality of that entry (entries produced by earlier merges overlap
    without being more general) - for then that entry would newly be matched first by keys that used to reach the member"""
    properties = ("C04", "C01")
    params = dict(merge=MERGE, i=TInt(0, None), changed=TBool(), min_goodness=TInt(), g_rest=MERGE, g_empty=MERGE)
    fragment_result = ("merge", "changed")
    fragment_head = "for i in sorted(merge.entries, reverse=True):"
    externals = {"class:_Merge": _new_merge}
    assumptions = ["_Merge(...) is recorded here (its construction has contracts of its own); the table is a sequence of (key, mask) records"]

    def native(i):
        raise __import__("pyvc.replay", fromlist=["OutsideHarness"]).OutsideHarness()

    def requires(merge, i):
        return (0 <= i < seq_len(merge.routing_table) and merge.insertion_index <= seq_len(merge.routing_table)
                and forall_range(0, seq_len(merge.routing_table), lambda j: well_formed(select(merge.routing_table, j).key, select(merge.routing_table, j).mask))
                and well_formed(select(merge.routing_table, i).key, select(merge.routing_table, i).mask))

    def ensures_member_removed_exactly_when_something_in_between_shares_a_key(merge, i, changed, min_goodness, g_rest, g_empty, result, _trace):
        e = select(merge.routing_table, i)
        covered = _exists_range(i + 1, merge.insertion_index, lambda j: shares_a_key(e.key, e.mask, select(merge.routing_table, j).key, select(merge.routing_table, j).mask))
        return (implies(not covered, len(_trace) == 0 and result[1] == changed)
                and implies(covered, len(_trace) >= 1 and result[1]
                            and (len(_trace) == 2) == (g_rest.goodness <= min_goodness)))


MERGE_KM = TRec("_Merge", key=KEY, mask=KEY)


@contract("rig/routing_table/ordered_covering.py::_get_covered_keys_and_masks@forbody:1")
class CoveredAliasStep:
    """the down-check looks at every entry below the insertion point through its aliases (the original entries it stands
    for): a pair is reported as covered exactly when it shares a key with the merged entry - whatever its route"""
    properties = ("C04", "C01")
    params = dict(merge=MERGE_KM, key=KEY, mask=KEY)
    fragment_result = ()
    fragment_head = "for key, mask in keys_masks:"

    def native(key):
        raise __import__("pyvc.replay", fromlist=["OutsideHarness"]).OutsideHarness()

    def requires(merge, key, mask):
        return well_formed(merge.key, merge.mask) and well_formed(key, mask)

    def ensures_reported_exactly_when_it_shares_a_key_with_the_merged_entry(merge, key, mask, result):
        hit = shares_a_key(merge.key, merge.mask, key, mask)
        return (implies(hit, seq_len(result) == 1 and select(result, 0) == (key, mask))
                and implies(not hit, seq_len(result) == 0))
