"""C04 -- routing table minimisation preserves routing.  Deductive part: the key/mask
vocabulary (rig/routing_table/utils.py::intersect), the meta-lemmas that turn the minimisers'
local checks into first-match preservation, and the try-each-method front end.  The minimisers'
loops over tables of entry objects are decided by the bounded layer (bounded/c04_tables.py)."""
from pyvc.spec import contract, lemma
from pyvc.values import TInt, TBool, TBV, TOpt, TSeq
from pyvc.speclib import implies, iff, forall_keys, exists_keys

KEY = TBV(40, 0, 0xffffffff)      # 32-bit keys/masks as signed 40-bit vectors (no overflow possible)


def matches(k, key, mask):
    return (k & mask) == key


def well_formed(key, mask):
    return (key & ~mask) == 0


@contract("rig/routing_table/utils.py::intersect")
class Intersect:
    properties = ("C04",)
    bv = 40
    params = dict(key_a=KEY, mask_a=KEY, key_b=KEY, mask_b=KEY)

    def requires(key_a, mask_a, key_b, mask_b):
        return well_formed(key_a, mask_a) and well_formed(key_b, mask_b)

    def ensures_true_iff_the_union_key_matches_both(key_a, mask_a, key_b, mask_b, result):
        w = key_a | key_b
        return iff(result, matches(w, key_a, mask_a) and matches(w, key_b, mask_b))


@lemma("intersect_iff_a_common_key_exists")
class IntersectCommonKey:
    """(key_a & mask_b) == (key_b & mask_a) holds exactly when some key matches both entries
    (witness key_a | key_b); in particular two entries that match the same key intersect.  This is
    what makes 'no later entry intersects a removed entry' imply 'no later entry matches a key the
    removed entry matched', and 'no entry above the merge position is covered' sound."""
    properties = ("C04",)
    bv = 40
    params = dict(key_a=KEY, mask_a=KEY, key_b=KEY, mask_b=KEY)

    def assuming(key_a, mask_a, key_b, mask_b):
        return well_formed(key_a, mask_a) and well_formed(key_b, mask_b)

    def claim_common_key_implies_intersect(key_a, mask_a, key_b, mask_b):
        return forall_keys(lambda k: implies(matches(k, key_a, mask_a) and matches(k, key_b, mask_b),
                                             (key_a & mask_b) == (key_b & mask_a)))

    def claim_intersect_implies_common_key(key_a, mask_a, key_b, mask_b):
        return implies((key_a & mask_b) == (key_b & mask_a),
                       matches(key_a | key_b, key_a, mask_a) and matches(key_a | key_b, key_b, mask_b))


@lemma("merged_entry_covers_its_members")
class MergeCovers:
    """ordered_covering._Merge folds keys and masks as  any_ones |= key, all_ones &= key,
    all_selected &= mask; any_diff = any_ones ^ all_ones; mask = all_selected & ~any_diff;
    key = all_ones & mask.  Step lemma: the folded entry matches every key a member matches."""
    properties = ("C04",)
    bv = 40
    params = dict(any_ones=KEY, all_ones=KEY, all_selected=KEY, key=KEY, mask=KEY)

    def assuming(any_ones, all_ones, all_selected, key, mask):
        # `key/mask` is a member already folded in: its ones are in any_ones, all_ones is below
        # its key, all_selected is below its mask
        return (well_formed(key, mask) and (key & ~any_ones) == 0 and (all_ones & ~key) == 0
                and (all_selected & ~mask) == 0)

    def claim(any_ones, all_ones, all_selected, key, mask):
        m = all_selected & ~(any_ones ^ all_ones)
        return forall_keys(lambda k: implies(matches(k, key, mask), (k & m) == (all_ones & m)))


# ---- default-route removal: the per-entry decision ------------------------------------------------
from pyvc.values import TSmallSet, TRec, TSeq   # noqa: E402
from pyvc.speclib import forall_range, select, seq_len   # noqa: E402

ROUTES = list(range(24))
ENTRY = TRec("RoutingTableEntry", route=TSmallSet(ROUTES), key=KEY, mask=KEY, sources=TSmallSet([None] + ROUTES))
TABLE = TSeq(ENTRY)


def straight_through(entry):
    """arrives from exactly one known link and leaves by exactly the opposite link"""
    return (len(entry.sources) == 1 and None not in entry.sources and len(entry.route) == 1
            and any(s in entry.sources and ((s + 3) % 6) in entry.route for s in range(6)))


def _mk_entry(e):
    from rig.routing_table import RoutingTableEntry, Routes
    return RoutingTableEntry({Routes(r) for r in e.route}, e.key, e.mask, {None if s is None else Routes(s) for s in e.sources})


@contract("rig/routing_table/remove_default_routes.py::_is_defaultable")
class IsDefaultable:
    properties = ("C04",)
    params = dict(i=TInt(0, None), entry=ENTRY, table=TABLE, check_for_aliases=TBool())
    options = {"int_class": "rig/routing_table/entries.py::Routes", "no_merge": True}

    def native(i, entry, table, check_for_aliases):
        from rig.routing_table.remove_default_routes import _is_defaultable
        return _is_defaultable(i, _mk_entry(entry), [_mk_entry(e) for e in table], check_for_aliases)

    def requires(i, entry, table, check_for_aliases):
        return well_formed(entry.key, entry.mask)

    def ensures_removable_iff_hardware_default_routing_does_the_same(i, entry, table, check_for_aliases, result):
        # ... and (when asked to check) no LATER entry can match a key this entry matches
        return iff(result, straight_through(entry) and (not check_for_aliases or forall_range(
            i + 1, seq_len(table), lambda j: (entry.key & select(table, j).mask) != (select(table, j).key & entry.mask))))
