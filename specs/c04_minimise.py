"""C04 -- routing table minimisation preserves routing.  Deductive part: the key/mask
vocabulary (rig/routing_table/utils.py::intersect), the meta-lemmas that turn the minimisers'
local checks into first-match preservation, and the try-each-method front end.  The minimisers'
loops over tables of entry objects are decided by the bounded layer (bounded/c04_tables.py)."""
from pyvc.spec import contract, lemma
from pyvc.values import TInt, TBool, TBV, TOpt, TSeq, TTuple
from pyvc.speclib import implies, iff, forall_keys, exists_keys, forall_int

KEY = TBV(40, 0, 0xffffffff)      # 32-bit keys/masks as signed 40-bit vectors (no overflow possible)


def matches(k, key, mask):
    return (k & mask) == key


def well_formed(key, mask):
    return (key & ~mask) == 0


@contract("rig/routing_table/utils.py::intersect")
class Intersect:
    properties = ("C04", "C01")
    bv = 40
    params = dict(key_a=KEY, mask_a=KEY, key_b=KEY, mask_b=KEY)

    def requires(key_a, mask_a, key_b, mask_b):
        return well_formed(key_a, mask_a) and well_formed(key_b, mask_b)

    def ensures_true_iff_the_union_key_matches_both(key_a, mask_a, key_b, mask_b, result):
        w = key_a | key_b
        return iff(result, matches(w, key_a, mask_a) and matches(w, key_b, mask_b))


@lemma("intersect_iff_a_common_key_exists")
class IntersectCommonKey:
    """(key_a & mask_b) == (key_b & mask_a) holds exactly when some key matches both entries
    (witness key_a | key_b); in particular two entries that match the same key intersect.  This is
    what makes 'no later entry intersects a removed entry' imply 'no later entry matches a key the
    removed entry matched', and 'no entry above the merge position is covered' sound."""
    properties = ("C04", "C01")
    bv = 40
    params = dict(key_a=KEY, mask_a=KEY, key_b=KEY, mask_b=KEY)

    def assuming(key_a, mask_a, key_b, mask_b):
        return well_formed(key_a, mask_a) and well_formed(key_b, mask_b)

    def claim_common_key_implies_intersect(key_a, mask_a, key_b, mask_b):
        return forall_keys(lambda k: implies(matches(k, key_a, mask_a) and matches(k, key_b, mask_b),
                                             (key_a & mask_b) == (key_b & mask_a)))

    def claim_intersect_implies_common_key(key_a, mask_a, key_b, mask_b):
        return implies((key_a & mask_b) == (key_b & mask_a),
                       matches(key_a | key_b, key_a, mask_a) and matches(key_a | key_b, key_b, mask_b))


@lemma("merged_entry_covers_its_members")
class MergeCovers:
    """ordered_covering._Merge folds keys and masks as  any_ones |= key, all_ones &= key,
    all_selected &= mask; any_diff = any_ones ^ all_ones; mask = all_selected & ~any_diff;
    key = all_ones & mask.  Step lemma: the folded entry matches every key a member matches."""
    properties = ("C04", "C01")
    bv = 40
    params = dict(any_ones=KEY, all_ones=KEY, all_selected=KEY, key=KEY, mask=KEY)

    def assuming(any_ones, all_ones, all_selected, key, mask):
        # `key/mask` is a member already folded in: its ones are in any_ones, all_ones is below
        # its key, all_selected is below its mask
        return (well_formed(key, mask) and (key & ~any_ones) == 0 and (all_ones & ~key) == 0
                and (all_selected & ~mask) == 0)

    def claim(any_ones, all_ones, all_selected, key, mask):
        m = all_selected & ~(any_ones ^ all_ones)
        return forall_keys(lambda k: implies(matches(k, key, mask), (k & m) == (all_ones & m)))


# ---- default-route removal: the per-entry decision ------------------------------------------------
from pyvc.values import TSmallSet, TRec, TSeq   # noqa: E402
from pyvc.speclib import forall_range, select, seq_len, opaque   # noqa: E402

ROUTES = list(range(24))
ENTRY = TRec("RoutingTableEntry", route=TSmallSet(ROUTES), key=KEY, mask=KEY, sources=TSmallSet([None] + ROUTES))
TABLE = TSeq(ENTRY)


@opaque
def no_later_alias(table, i, key, mask):
    """no entry below position i can match a key that (key, mask) matches"""
    return forall_range(i + 1, seq_len(table), lambda j: (key & select(table, j).mask) != (select(table, j).key & mask))


def straight_through(entry):
    """arrives from exactly one known link and leaves by exactly the opposite link"""
    return (len(entry.sources) == 1 and None not in entry.sources and len(entry.route) == 1
            and any(s in entry.sources and ((s + 3) % 6) in entry.route for s in range(6)))


def _mk_entry(e):
    from rig.routing_table import RoutingTableEntry, Routes
    return RoutingTableEntry({Routes(r) for r in e.route}, e.key, e.mask, {None if s is None else Routes(s) for s in e.sources})


@contract("rig/routing_table/remove_default_routes.py::_is_defaultable")
class IsDefaultable:
    properties = ("C04", "C01")
    params = dict(i=TInt(0, None), entry=ENTRY, table=TABLE, check_for_aliases=TBool())
    result = TBool()
    options = {"int_class": "rig/routing_table/entries.py::Routes", "no_merge": True}

    def native(i, entry, table, check_for_aliases):
        from rig.routing_table.remove_default_routes import _is_defaultable
        return _is_defaultable(i, _mk_entry(entry), [_mk_entry(e) for e in table], check_for_aliases)

    def requires(i, entry, table, check_for_aliases):
        return well_formed(entry.key, entry.mask)

    def ensures_removable_iff_hardware_default_routing_does_the_same(i, entry, table, check_for_aliases, result):
        # ... and (when asked to check) no LATER entry can match a key this entry matches
        return iff(result, straight_through(entry) and (not check_for_aliases or no_later_alias(table, i, entry.key, entry.mask)))


# ---- default-route removal: the table loop -----------------------------------------------------------
from pyvc.values import TOpt   # noqa: E402
from pyvc.speclib import exists_range, unopt, opaque   # noqa: E402



@opaque
def removable(table, i, check):
    """entry i may be left to hardware default routing (the contract of _is_defaultable).  Opaque
    inside the quantified invariants; its definition is used at the one index handled per iteration."""
    e = select(table, i)
    return straight_through(e) and (not check or no_later_alias(table, i, e.key, e.mask))


@contract("rig/routing_table/remove_default_routes.py::minimise")
class RemoveDefaultRoutes:
    """The result is the order-preserving sub-table of exactly the entries that may NOT be left to
    default routing (ghost g_idx = indices kept).  With lemma intersect_iff_a_common_key_exists this
    gives C04 for default-route removal on any ordered table: a key whose first match i is kept is
    still first-matched by the image of i (everything above it in the result was above it before and
    did not match); if i was removed, no later entry matches the key (it would intersect i) and no
    earlier one does, so hardware default routing takes over, which is what entry i did."""
    properties = ("C04", "C01")
    params = dict(table=TABLE, target_length=TOpt(TInt(0, None)), check_for_aliases=TBool())
    modular = ("rig/routing_table/remove_default_routes.py::_is_defaultable",)
    options = {"var_shapes": {"new_table": TABLE}, "int_class": "rig/routing_table/entries.py::Routes"}
    ghost_vars = {"g_idx": TSeq(TInt())}
    ghost_updates = {"new_table.append(entry)": ["gupd_remember_the_index_kept"]}
    raises = {"MinimisationFailedError": None}
    loop_headers = {0: "for i, entry in enumerate(table):"}

    def native(table, target_length, check_for_aliases):
        from rig.routing_table.remove_default_routes import minimise
        from pyvc.replay import OutsideHarness
        raise OutsideHarness()        # the ghost index map has no native counterpart; see bounded/c04_tables.py

    def gupd_remember_the_index_kept(g_idx, i):
        return {"g_idx": g_idx + [i]}

    def requires(table, target_length, check_for_aliases):
        return forall_range(0, seq_len(table), lambda j: well_formed(select(table, j).key, select(table, j).mask))

    def inv_0_one_index_per_kept_entry(new_table, g_idx, _k0):
        return seq_len(new_table) == seq_len(g_idx) and seq_len(g_idx) <= _k0

    def inv_0_kept_entries_are_the_indexed_ones(new_table, g_idx, table, _k0):
        return forall_range(0, seq_len(g_idx), lambda a: 0 <= select(g_idx, a) < _k0
                            and select(new_table, a) == select(table, select(g_idx, a)))

    def inv_0_order_preserved(g_idx):
        return forall_range(0, seq_len(g_idx) - 1, lambda a: select(g_idx, a) < select(g_idx, a + 1))

    def inv_0_last_index_below_k(g_idx, _k0):
        return seq_len(g_idx) == 0 or select(g_idx, seq_len(g_idx) - 1) < _k0

    def inv_0_nothing_removable_is_kept(g_idx, table, old_check_for_aliases):
        return forall_range(0, seq_len(g_idx), lambda a: not removable(table, select(g_idx, a), old_check_for_aliases))

    def inv_0_everything_else_is_kept(g_idx, table, old_check_for_aliases, _k0):
        return forall_range(0, _k0, lambda i: removable(table, i, old_check_for_aliases)
                            or exists_range(0, seq_len(g_idx), lambda a: select(g_idx, a) == i))

    # the decision taken for entry i in this iteration is the right one -- also when the
    # same-mask/distinct-keys shortcut has switched the alias check off (no two entries of such a
    # table intersect).  This is where the definition of `removable` is used.
    ghost_asserts = {"""if not _is_defaultable(i, entry, table, check_for_aliases):
            new_table.append(entry)""": ["ghost_entry_kept_iff_not_removable"]}

    def ghost_entry_kept_iff_not_removable(table, i, old_check_for_aliases, g_idx):
        kept = seq_len(g_idx) > 0 and select(g_idx, seq_len(g_idx) - 1) == i
        return kept == (not removable(table, i, old_check_for_aliases))

    def raises_MinimisationFailedError(target_length, local_new_table, exc_args):
        return (target_length is not None and unopt(target_length) < seq_len(local_new_table)
                and exc_args[0] == unopt(target_length) and exc_args[1] == seq_len(local_new_table))

    def ensures_never_longer_and_meets_the_target(table, target_length, result):
        return seq_len(result) <= seq_len(table) and (target_length is None or seq_len(result) <= unopt(target_length))

    def ensures_order_preserving_subtable(table, result, g_idx):
        return (seq_len(result) == seq_len(g_idx)
                and forall_range(0, seq_len(g_idx), lambda a: 0 <= select(g_idx, a) < seq_len(table)
                                 and select(result, a) == select(table, select(g_idx, a)))
                and forall_range(0, seq_len(g_idx) - 1, lambda a: select(g_idx, a) < select(g_idx, a + 1)))

    def ensures_keeps_exactly_the_entries_default_routing_cannot_replace(table, old_check_for_aliases, g_idx):
        # (removable(...) is the predicate of _is_defaultable's contract, with the CALLER's flag)
        # stated with the caller's check_for_aliases (the same-mask/distinct-keys shortcut must not matter)
        return (forall_range(0, seq_len(g_idx), lambda a: not removable(table, select(g_idx, a), old_check_for_aliases))
                and forall_range(0, seq_len(table), lambda i: removable(table, i, old_check_for_aliases)
                                 or exists_range(0, seq_len(g_idx), lambda a: select(g_idx, a) == i)))


# ---- the try-each-method front end ---------------------------------------------------------------------
from pyvc.values import TList, TRec as _TRec, ListV as _ListV, ExcV as _ExcV, NONE as _NONE   # noqa: E402
from rig.routing_table import MinimisationFailedError   # noqa: E402,F401  (class resolution for the engine)

ANYTABLE = TSeq(TInt())           # the front end only looks at lengths and hands tables through


@contract("rig/routing_table/minimise.py::_identity")
class Identity:
    properties = ("C04", "C01")
    params = dict(table=ANYTABLE, target_length=TOpt(TInt(0, None)))
    raises = {"MinimisationFailedError": None}

    def raises_MinimisationFailedError(table, target_length, exc_args):
        # NB: a table of exactly the target length is refused here (and then accepted from the next
        # method, which returns it unchanged or smaller)
        return target_length is not None and seq_len(table) >= unopt(target_length) and exc_args == (unopt(target_length), seq_len(table))

    def ensures_returns_the_table_itself(table, target_length, result):
        return result == table and (target_length is None or seq_len(table) < unopt(target_length))


def _method_call(E, obj, args, kwargs, st, node):
    """Assumed contract of a minimisation method f(table, target): it returns its result table
    (ghost input g_r<n>: no longer than the input, within the target if one is given) or raises
    MinimisationFailedError(target, final_length = ghost g_f<n>)."""
    from pyvc.engine import Raised
    n = obj.fields["n"]
    r = st.env["g_r%d" % n]
    fl = st.env["g_f%d" % n]
    fails = st.env["g_fail%d" % n]
    ok = st.assume(z3.Not(fails))
    bad = st.assume(fails)
    return [(ok, r, None), (bad, Raised(_ExcV("MinimisationFailedError", (args[1], fl))), None)]


import z3   # noqa: E402
METHOD = lambda n: _TRec("Method", n=TConst(n))    # noqa: E731
from pyvc.values import TConst   # noqa: E402


@contract("rig/routing_table/minimise.py::minimise_table")
class MinimiseTable:
    """two methods after the built-in identity (the default is default-route removal, then ordered
    covering); each method is an opaque callable with the assumed contract of _method_call"""
    properties = ("C04", "C01")
    params = dict(table=ANYTABLE, target_length=TOpt(TInt(0, None)), methods=TTuple(METHOD(0), METHOD(1)),
                  g_r0=ANYTABLE, g_r1=ANYTABLE, g_f0=TInt(0, None), g_f1=TInt(0, None), g_fail0=TBool(), g_fail1=TBool())
    externals = {"Method.__call__": _method_call}
    raises = {"MinimisationFailedError": None}
    options = {"no_merge": True}
    assumptions = ["each minimisation method either returns a table no longer than its input that meets the target (if given) and routes every key as the input does, or raises MinimisationFailedError(final_length) - discharged separately for default-route removal, bounded for ordered covering"]

    def native(table, target_length, methods, g_r0, g_r1, g_f0, g_f1, g_fail0, g_fail1):
        raise __import__("pyvc.replay", fromlist=["OutsideHarness"]).OutsideHarness()

    def requires(table, target_length, g_r0, g_r1, g_f0, g_f1, g_fail0, g_fail1):
        return (seq_len(g_r0) <= seq_len(table) and seq_len(g_r1) <= seq_len(table)
                and (target_length is None or (seq_len(g_r0) <= unopt(target_length) and seq_len(g_r1) <= unopt(target_length)))
                and (target_length is None or (g_f0 > unopt(target_length) and g_f1 > unopt(target_length)))
                and implies(target_length is None, not g_fail0 and not g_fail1))

    def raises_MinimisationFailedError(table, target_length, g_f0, g_f1, g_fail0, g_fail1, exc_args):
        # only if the table itself is too long AND every method failed; reports the best size reached
        return (target_length is not None and seq_len(table) >= unopt(target_length) and g_fail0 and g_fail1
                and exc_args[0] == unopt(target_length) and exc_args[1] == min(seq_len(table), g_f0, g_f1))

    def ensures_returns_a_table_one_of_the_methods_produced(table, g_r0, g_r1, g_fail0, g_fail1, result):
        return result == table or (not g_fail0 and result == g_r0) or (not g_fail1 and result == g_r1)

    def ensures_meets_the_target_or_is_a_shortest(table, target_length, g_r0, g_r1, result):
        return ((target_length is not None and seq_len(result) <= unopt(target_length))
                or (target_length is None and seq_len(result) <= seq_len(table)
                    and seq_len(result) <= seq_len(g_r0) and seq_len(result) <= seq_len(g_r1)))


# ---- ordered covering: generality ------------------------------------------------------------------------
@opaque
def gen(key, mask):
    """generality of an entry = number of X bits (opaque inside quantified clauses)"""
    return sum((1 if ((~key & ~mask) & (1 << i)) != 0 else 0) for i in range(32))


@contract("rig/routing_table/ordered_covering.py::_get_generality")
class GetGenerality:
    properties = ("C04", "C01")
    bv = 40
    params = dict(key=KEY, mask=KEY)

    def ensures_counts_the_x_bits(key, mask, result):
        # an X is a bit that is 0 in both key and mask (the table must be listed by this number)
        return result == sum((1 if ((~key & ~mask) & (1 << i)) != 0 else 0) for i in range(32))

    def ensures_in_range(key, mask, result):
        return 0 <= result <= 32

    def ensures_is_the_generality(key, mask, result):
        return result == gen(key, mask)


# ---- ordered covering: where a merged entry is inserted -------------------------------------------------------
KM = _TRec("RoutingTableEntry", key=KEY, mask=KEY)


def g_at(table, i):
    return gen(select(table, i).key, select(table, i).mask)


@contract("rig/routing_table/ordered_covering.py::_get_insertion_index")
class InsertionIndex:
    """binary search followed by a forward scan: on a table listed in increasing order of generality
    the result splits it into the entries of smaller generality and those of equal or greater one"""
    properties = ("C04", "C01")
    params = dict(routing_table=TSeq(KM), generality=TInt(0, 33))
    modular = ("rig/routing_table/ordered_covering.py::_get_generality",)
    loop_headers = {0: "while pg != generality and bottom < pos < top:", 1: "while (pos < len(routing_table) and"}

    def native(routing_table, generality):
        raise __import__("pyvc.replay", fromlist=["OutsideHarness"]).OutsideHarness()

    def requires(routing_table, generality):
        return forall_int(lambda i, j: implies(0 <= i < j < seq_len(routing_table), g_at(routing_table, i) <= g_at(routing_table, j)))

    def inv_0_search_window(routing_table, generality, bottom, top, pos, pg):
        n = seq_len(routing_table)
        return (0 <= bottom <= pos and pos < top and top <= n and pos < n and pg == g_at(routing_table, pos)
                and (bottom == 0 or g_at(routing_table, bottom) < generality)
                and (top == n or g_at(routing_table, top) > generality))

    def variant_0(bottom, top):
        return top - bottom

    def inv_1_everything_before_is_less_general(routing_table, generality, pos):
        return (0 <= pos <= seq_len(routing_table)
                and forall_range(0, pos, lambda i: g_at(routing_table, i) <= generality))

    def variant_1(routing_table, pos):
        return seq_len(routing_table) - pos

    def ensures_splits_the_table_at_the_generality(routing_table, generality, result):
        n = seq_len(routing_table)
        return (0 <= result <= n
                and forall_range(0, result, lambda i: g_at(routing_table, i) < generality)
                and forall_range(result, n, lambda i: g_at(routing_table, i) >= generality))


# ---- ordered covering: the merge computation of _Merge.__new__, on the real statements (fragments) ---------------------------
def folded(any_ones, all_ones, all_selected, key, mask):
    """member key/mask has been folded into the accumulators"""
    return (key & ~any_ones) == 0 and (all_ones & ~key) == 0 and (all_selected & ~mask) == 0


@contract("rig/routing_table/ordered_covering.py::_Merge.__new__@forbody:0")
class MergeFoldStep:
    fragment_head = "for i in entries:"
    """ONE iteration of `for i in entries:`: the entry is folded in and every member folded before stays folded"""
    properties = ("C04", "C01")
    bv = 40
    params = dict(i=TInt(0, None), routing_table=TABLE, sources=TSmallSet([None] + ROUTES),
                  any_ones=KEY, all_ones=KEY, all_selected=KEY, g_key=KEY, g_mask=KEY)
    fragment_result = ("any_ones", "all_ones", "all_selected", "sources")
    options = {"int_class": "rig/routing_table/entries.py::Routes"}

    def native(i):
        raise __import__("pyvc.replay", fromlist=["OutsideHarness"]).OutsideHarness()

    def requires(i, routing_table, any_ones, all_ones, all_selected, g_key, g_mask):
        return i < seq_len(routing_table) and folded(any_ones, all_ones, all_selected, g_key, g_mask)

    def ensures_the_entry_is_folded_in(i, routing_table, result):
        e = select(routing_table, i)
        return folded(result[0], result[1], result[2], e.key, e.mask)

    def ensures_earlier_members_stay_folded(result, g_key, g_mask):
        return folded(result[0], result[1], result[2], g_key, g_mask)

    def ensures_sources_are_the_union_of_the_members_sources(i, routing_table, sources, result):
        e = select(routing_table, i)
        return all((r in result[3]) == (r in sources or r in e.sources) for r in [None] + ROUTES)


@contract("rig/routing_table/ordered_covering.py::_Merge.__new__@seq:5:4")
class MergeKeyMask:
    """the four statements after the loop (any_zeros, new_xs, mask, key): the merged entry matches every key a folded member
    matches, and its key has no bit outside its mask"""
    properties = ("C04", "C01")
    bv = 40
    params = dict(any_ones=KEY, all_ones=KEY, all_selected=KEY, g_key=KEY, g_mask=KEY)
    fragment_result = ("key", "mask")
    fragment_head = "any_zeros = ~all_ones"

    def native(any_ones):
        raise __import__("pyvc.replay", fromlist=["OutsideHarness"]).OutsideHarness()

    def requires(any_ones, all_ones, all_selected, g_key, g_mask):
        return well_formed(g_key, g_mask) and folded(any_ones, all_ones, all_selected, g_key, g_mask)

    def ensures_the_merged_entry_matches_what_a_member_matches(result, g_key, g_mask):
        return forall_keys(lambda k: implies(matches(k, g_key, g_mask), matches(k, result[0], result[1])))

    def ensures_merged_entry_is_well_formed(result):
        return well_formed(result[0], result[1])


# ---- minimise_tables: one chip of the loop (fragment) ------------------------------------------------------------------
from pyvc.values import ListV as _ListV, NONE as _NONE   # noqa: E402


def _lengths_getitem(E, obj, args, kwargs, st, node):
    s = st.copy()
    s.trace = _ListV(s.trace.items + (("target_of", args[0]),))
    return [(s, st.env["g_target"], None)]


def _minimise_table_ext(E, args, kwargs, st, node):
    """minimise_table(table, target, methods) (its own contract: MinimiseTable): the call is recorded; it returns the ghost
    table g_new or raises MinimisationFailedError"""
    from pyvc.engine import Raised
    s = st.copy()
    s.trace = _ListV(s.trace.items + (("minimise_table",) + tuple(args),))
    ok = s.assume(z3.Not(st.env["g_fail"]))
    bad = s.assume(st.env["g_fail"])
    return [(ok, st.env["g_new"]), (bad, Raised(_ExcV("MinimisationFailedError", (args[1], 0))))]


def _tables_setitem(E, obj, args, kwargs, st, node):
    s = st.copy()
    s.trace = _ListV(s.trace.items + (("store",) + tuple(args),))
    return [(s, _NONE, None)]


@contract("rig/routing_table/minimise.py::minimise_tables@forbody:0")
class MinimiseTablesStep:
    """one chip: ITS table is minimised with ITS target and the methods given - every chip on its own, whatever other chips
    carry - and the result is stored for that chip exactly when it is not empty"""
    properties = ("C04", "C01")
    params = dict(chip=TTuple(TInt(0, 255), TInt(0, 255)), table=ANYTABLE, lengths=_TRec("Lengths"), methods=TInt(), new_tables=_TRec("Dict"),
                  g_target=TOpt(TInt(0, None)), g_new=ANYTABLE, g_fail=TBool())
    fragment_result = ()
    fragment_head = "for chip, table in iteritems(routing_tables):"
    externals = {"Lengths.__getitem__": _lengths_getitem, "def:minimise_table": _minimise_table_ext, "Dict.__setitem__": _tables_setitem}
    raises = {"MinimisationFailedError": None}
    assumptions = ["minimise_table is external here (contract MinimiseTable); the per-chip target lookup and the result dict are recorded"]

    def native(chip):
        raise __import__("pyvc.replay", fromlist=["OutsideHarness"]).OutsideHarness()

    def raises_MinimisationFailedError(chip, g_fail, exc_chip):
        return g_fail and exc_chip == chip          # the failure names this chip

    def ensures_this_chips_table_is_minimised_with_this_chips_target(chip, table, methods, g_target, g_new, g_fail, _trace):
        return (not g_fail and len(_trace) >= 2 and _trace[0] == ("target_of", chip)
                and _trace[1] == ("minimise_table", table, g_target, methods))

    def ensures_stored_for_this_chip_unless_empty(chip, g_new, _trace):
        return ((seq_len(g_new) == 0 and len(_trace) == 2)
                or (seq_len(g_new) > 0 and len(_trace) == 3 and _trace[2] == ("store", chip, g_new)))


# ---- the up-check of ordered covering: one member of a proposed merge (fragment) ------------------------------------------
from pyvc.values import TSet as _TSet, ObjV as _ObjV4   # noqa: E402
from pyvc.speclib import exists_range as _exists_range   # noqa: E402

KM = TRec("RoutingTableEntry", key=KEY, mask=KEY)
MERGE = TRec("_Merge", routing_table=TSeq(KM), entries=_TSet(TInt()), insertion_index=TInt(0, None), goodness=TInt())


def _new_merge(E, args, kwargs, st, node):
    """_Merge(table[, entries]) (its construction is under contract of its own: MergeFoldStep / MergeKeyMask): recorded; the
    merge built from the remaining members is the ghost g_rest, the empty merge the ghost g_empty"""
    s = st.copy()
    if len(args) == 2:
        s.trace = _ListV(s.trace.items + (("merge_of", args[1]),))
        return [(s, st.env["g_rest"])]
    s.trace = _ListV(s.trace.items + (("empty_merge",),))
    return [(s, st.env["g_empty"])]


def shares_a_key(k1, m1, k2, m2):
    """some key is matched by both patterns: they agree on every bit both of them care about"""
    return ((k1 ^ k2) & m1 & m2) == 0


@contract("rig/routing_table/ordered_covering.py::_refine_upcheck@forbody:0")
class UpcheckMember:
    """a member of the merge is taken out exactly when some entry between its present position and the place the merged entry
    would be inserted shares a key with it - WHATEVER the generality of that entry (entries produced by earlier merges overlap
    without being more general) - for then that entry would newly be matched first by keys that used to reach the member"""
    properties = ("C04", "C01")
    params = dict(merge=MERGE, i=TInt(0, None), changed=TBool(), min_goodness=TInt(), g_rest=MERGE, g_empty=MERGE)
    fragment_result = ("merge", "changed")
    fragment_head = "for i in sorted(merge.entries, reverse=True):"
    externals = {"class:_Merge": _new_merge}
    assumptions = ["_Merge(...) is recorded here (its construction has contracts of its own); the table is a sequence of (key, mask) records"]

    def native(i):
        raise __import__("pyvc.replay", fromlist=["OutsideHarness"]).OutsideHarness()

    def requires(merge, i):
        return (0 <= i < seq_len(merge.routing_table) and merge.insertion_index <= seq_len(merge.routing_table)
                and forall_range(0, seq_len(merge.routing_table), lambda j: well_formed(select(merge.routing_table, j).key, select(merge.routing_table, j).mask))
                and well_formed(select(merge.routing_table, i).key, select(merge.routing_table, i).mask))

    def ensures_member_removed_exactly_when_something_in_between_shares_a_key(merge, i, changed, min_goodness, g_rest, g_empty, result, _trace):
        e = select(merge.routing_table, i)
        covered = _exists_range(i + 1, merge.insertion_index, lambda j: shares_a_key(e.key, e.mask, select(merge.routing_table, j).key, select(merge.routing_table, j).mask))
        return (implies(not covered, len(_trace) == 0 and result[1] == changed)
                and implies(covered, len(_trace) >= 1 and result[1]
                            and (len(_trace) == 2) == (g_rest.goodness <= min_goodness)))


MERGE_KM = TRec("_Merge", key=KEY, mask=KEY)


@contract("rig/routing_table/ordered_covering.py::_get_covered_keys_and_masks@forbody:1")
class CoveredAliasStep:
    """the down-check looks at every entry below the insertion point through its aliases (the original entries it stands
    for): a pair is reported as covered exactly when it shares a key with the merged entry - whatever its route"""
    properties = ("C04", "C01")
    params = dict(merge=MERGE_KM, key=KEY, mask=KEY)
    fragment_result = ()
    fragment_head = "for key, mask in keys_masks:"

    def native(key):
        raise __import__("pyvc.replay", fromlist=["OutsideHarness"]).OutsideHarness()

    def requires(merge, key, mask):
        return well_formed(merge.key, merge.mask) and well_formed(key, mask)

    def ensures_reported_exactly_when_it_shares_a_key_with_the_merged_entry(merge, key, mask, result):
        hit = shares_a_key(merge.key, merge.mask, key, mask)
        return (implies(hit, seq_len(result) == 1 and select(result, 0) == (key, mask))
                and implies(not hit, seq_len(result) == 0))


# ---- ordered covering: the composition of the two checks (_refine_merge) ------------------------------------------------------
# A merge is SAFE to apply when (D) no original entry standing behind an entry at or below the insertion point shares a key with
# the merged entry (down-check) and (U) no entry between a member and the insertion point shares a key with that member
# (up-check).  Both checks shrink the merge; the up-check changes key, mask and insertion point, which can invalidate (D) - this
# is why _refine_merge has to run the down-check again after an up-check that changed something.  The two predicates are
# uninterpreted here (their meaning is fixed by the contracts of the two checks: UpcheckMember / CoveredAliasStep and the bounded
# layer); what is proved is the composition.
from pyvc.speclib import uf, ite   # noqa: E402

MERGE_ID = TRec("_Merge", ident=TInt(), goodness=TInt())


def down_ok(m):
    return uf("down_ok", m.ident) == 1


def up_ok(m):
    return uf("up_ok", m.ident) == 1


def sub_merge(a, b):
    """the members of a are members of b"""
    return uf("sub_merge", a.ident, b.ident) == 1


def _downcheck_ext(E, args, kwargs, st, node):
    s = st.copy()
    n = sum(1 for t in s.trace.items if t[0] == "downcheck")
    s.trace = _ListV(s.trace.items + (("downcheck", args[0], args[1], kwargs.get("min_goodness", args[2] if len(args) > 2 else None)),))
    return [(s, st.env["g_d%d" % n])]


def _upcheck_ext(E, args, kwargs, st, node):
    s = st.copy()
    s.trace = _ListV(s.trace.items + (("upcheck", args[0], args[1]),))
    return [(s, (st.env["g_u"], st.env["g_changed"]))]


@contract("rig/routing_table/ordered_covering.py::_refine_merge")
class RefineMerge:
    """whatever _refine_merge returns with a goodness above the bar has passed BOTH checks in its final form"""
    properties = ("C04", "C01")
    params = dict(merge=MERGE_ID, aliases=TInt(), min_goodness=TInt(),
                  g_d0=MERGE_ID, g_u=MERGE_ID, g_changed=TBool(), g_d1=MERGE_ID)
    result = MERGE_ID
    externals = {"def:_refine_downcheck": _downcheck_ext, "def:_refine_upcheck": _upcheck_ext}
    assumptions = ["assumed contracts of the two checks (their loop bodies are under contract as fragments, their loops bounded): "
                   "_refine_downcheck(m) returns a sub-merge that passes the down-check or has goodness <= min_goodness, and keeps "
                   "the up-check property of its argument (removing members lowers generality and insertion point); _refine_upcheck(m) "
                   "returns a sub-merge that passes the up-check or has goodness <= min_goodness, and says whether it removed anything"]

    def native(merge):
        raise __import__("pyvc.replay", fromlist=["OutsideHarness"]).OutsideHarness()

    def requires(merge, min_goodness, g_d0, g_u, g_changed, g_d1):
        return (   # first down-check, on the merge given
                (g_d0.goodness <= min_goodness or down_ok(g_d0))
                # up-check, on the result of the first down-check
                and (g_u.goodness <= min_goodness or up_ok(g_u))
                and implies(not g_changed, g_u.ident == g_d0.ident and g_u.goodness == g_d0.goodness)
                # second down-check, on the result of the up-check: keeps (U), establishes (D)
                and (g_d1.goodness <= min_goodness or down_ok(g_d1))
                and implies(up_ok(g_u), up_ok(g_d1)))

    def ensures_a_merge_above_the_bar_passed_both_checks_in_its_final_form(min_goodness, result):
        return implies(result.goodness > min_goodness, down_ok(result) and up_ok(result))

    def ensures_each_check_is_given_the_result_of_the_one_before(merge, aliases, min_goodness, g_d0, g_u, g_changed, _trace):
        return (len(_trace) >= 1 and _trace[0] == ("downcheck", merge, aliases, min_goodness)
                and implies(len(_trace) >= 2, _trace[1] == ("upcheck", g_d0, min_goodness))
                and implies(len(_trace) >= 3, _trace[2] == ("downcheck", g_u, aliases, min_goodness)))


# ---- ordered covering: the driver loop (ordered_covering) and its caller (minimise) --------------------------------------------
from pyvc.values import fresh as _fresh   # noqa: E402

TBL = TRec("Table", ident=TInt(), n=TInt(0, None))
ALI = TRec("Aliases", ident=TInt())
MERGE_OC = TRec("_Merge", ident=TInt(), goodness=TInt())


def _tbl_len(E, args, kwargs, st, node):
    return [(st, args[0].fields["n"])]


def _oc_dict(E, args, kwargs, st, node):
    s = st.copy()
    s.trace = _ListV(s.trace.items + (("dict", args[0]),))
    return [(s, st.env["g_aliases0"])]


def _oc_sorted(E, args, kwargs, st, node):
    """sorted(table, key=f): the key function is applied to the ghost entry g_probe and the value is recorded - so that the
    contract can say WHICH key the table is listed by"""
    out = []
    if set(kwargs) - {"key"} or len(args) != 1:
        raise __import__("pyvc.values", fromlist=["EngineError"]).EngineError("sorted() with other options")
    for s2, kv in E.call(kwargs["key"], [st.env["g_probe"]], {}, st, node):
        s3 = s2.copy()
        s3.trace = _ListV(s3.trace.items + (("sorted", args[0], kv),))
        out.append((s3, st.env["g_sorted"]))
    return out


def best_goodness(table, aliases):
    """goodness of the merge _get_best_merge proposes for this table with these aliases"""
    return uf("best_goodness", table.ident, aliases.ident)


def _best_merge_ext(E, args, kwargs, st, node):
    m, facts = _fresh(MERGE_OC, "merge")
    s = st.assume(*facts)
    s = s.assume(uf_term("best_goodness", args[0].fields["ident"], args[1].fields["ident"]) == m.fields["goodness"],
                 uf_term("bm_table", m.fields["ident"]) == args[0].fields["ident"],
                 uf_term("bm_len", m.fields["ident"]) == args[0].fields["n"],
                 uf_term("bm_aliases", m.fields["ident"]) == args[1].fields["ident"])
    return [(s, m)]


def _apply_ext(E, obj, args, kwargs, st, node):
    """merge.apply(aliases) (contract of _Merge.apply): a table of (length of the merge's table) - goodness entries, never empty"""
    t, f1 = _fresh(TBL, "applied")
    a, f2 = _fresh(ALI, "new_aliases")
    s = st.assume(*(f1 + f2))
    s = s.assume(t.fields["n"] >= 1,
                 uf_term("ap_merge", t.fields["ident"]) == obj.fields["ident"],
                 uf_term("ap_aliases", t.fields["ident"]) == args[0].fields["ident"],
                 uf_term("ap_new_aliases", t.fields["ident"]) == a.fields["ident"],
                 t.fields["n"] == uf_term("bm_len", obj.fields["ident"]) - obj.fields["goodness"])
    return [(s, (t, a), None)]


def uf_term(name, *terms):
    return z3.Function("uf_" + name, *([z3.IntSort()] * (len(terms) + 1)))(*[t if z3.is_expr(t) else z3.IntVal(t) for t in terms])


def built_by_best_merges(table, aliases, start_table, start_aliases):
    """(table, aliases) is (start_table, start_aliases) or was produced by applying, to a pair built this way, the merge that
    _get_best_merge proposed for exactly that pair, with exactly those aliases"""
    return ((table.ident == start_table.ident and aliases.ident == start_aliases.ident)
            or (uf("ap_new_aliases", table.ident) == aliases.ident
                and uf("bm_aliases", uf("ap_merge", table.ident)) == uf("ap_aliases", table.ident)))


@contract("rig/routing_table/ordered_covering.py::ordered_covering")
class OrderedCoveringLoop:
    """the driver: the table is listed by generality first (the insertion index of every merge relies on it), the caller's
    aliases are copied, and then - while the target is not met - the merge proposed for the CURRENT table and aliases is
    applied with the CURRENT aliases; it stops only when the target is met or no merge of positive goodness is left, and
    fails only if asked to and the target was not met"""
    properties = ("C04", "C01")
    params = dict(routing_table=TBL, target_length=TOpt(TInt(0, None)), aliases=ALI, no_raise=TBool(),
                  g_sorted=TBL, g_aliases0=ALI, g_probe=KM)
    modular = ("rig/routing_table/ordered_covering.py::_get_generality",)
    externals = {"len": _tbl_len, "dict": _oc_dict, "sorted": _oc_sorted, "def:_get_best_merge": _best_merge_ext, "_Merge.apply": _apply_ext}
    raises = {"MinimisationFailedError": None}
    loop_headers = {0: "while target_length is None or len(routing_table) > target_length:"}
    options = {"var_shapes": {"merge": MERGE_OC}}
    assumptions = ["tables, alias dictionaries and merges are opaque here: _get_best_merge(table, aliases) returns a merge (its goodness "
                   "is a function of the pair), _Merge.apply(aliases) returns a new table of at least one entry and new aliases "
                   "(contracts of their own: RefineMerge / BestMergeStep / MergeApply*); sorted() and dict() return new objects"]

    def native(routing_table):
        raise __import__("pyvc.replay", fromlist=["OutsideHarness"]).OutsideHarness()

    def requires(routing_table, g_sorted):
        return g_sorted.n == routing_table.n

    def inv_0_built_by_applying_the_proposed_merges(routing_table, aliases, g_sorted, g_aliases0):
        return built_by_best_merges(routing_table, aliases, g_sorted, g_aliases0)

    def inv_0_length(routing_table):
        return routing_table.n >= 0

    ghost_asserts = {"routing_table, aliases = merge.apply(aliases)": ["ghost_the_merge_applied_was_proposed_for_the_current_table_and_aliases"]}

    def ghost_the_merge_applied_was_proposed_for_the_current_table_and_aliases(iter_routing_table, iter_aliases, merge, routing_table, aliases):
        return (uf("bm_table", merge.ident) == iter_routing_table.ident and uf("bm_aliases", merge.ident) == iter_aliases.ident
                and uf("ap_merge", routing_table.ident) == merge.ident and uf("ap_aliases", routing_table.ident) == iter_aliases.ident
                and uf("ap_new_aliases", routing_table.ident) == aliases.ident)

    def variant_0(routing_table):
        return routing_table.n

    def raises_MinimisationFailedError(no_raise, target_length, local_routing_table, exc_args):
        return (not no_raise and target_length is not None and local_routing_table.n > unopt(target_length)
                and exc_args == (unopt(target_length), local_routing_table.n))

    def ensures_stops_only_when_the_target_is_met_or_nothing_can_be_merged(target_length, result):
        return ((target_length is not None and result[0].n <= unopt(target_length))
                or best_goodness(result[0], result[1]) <= 0)

    def ensures_result_built_by_applying_the_proposed_merges(g_sorted, g_aliases0, result):
        return built_by_best_merges(result[0], result[1], g_sorted, g_aliases0)


@contract("rig/routing_table/ordered_covering.py::ordered_covering@seq:0:2")
class OrderedCoveringPrologue:
    """the two statements before the loop: the caller's alias dictionary is copied (never used directly), and the table is
    listed by GENERALITY - the key function, applied to an arbitrary entry, is the number of X bits of its key/mask"""
    properties = ("C04", "C01")
    params = dict(routing_table=TBL, aliases=ALI, g_sorted=TBL, g_aliases0=ALI, g_probe=KM)
    fragment_result = ("routing_table", "aliases")
    fragment_head = "aliases = dict(aliases)"
    modular = ("rig/routing_table/ordered_covering.py::_get_generality",)
    externals = {"dict": _oc_dict, "sorted": _oc_sorted}

    def native(routing_table):
        raise __import__("pyvc.replay", fromlist=["OutsideHarness"]).OutsideHarness()

    def ensures_listed_by_generality_and_aliases_copied(routing_table, aliases, g_probe, g_sorted, g_aliases0, result, _trace):
        return (len(_trace) == 2 and _trace[0] == ("dict", aliases)
                and _trace[1] == ("sorted", routing_table, gen(g_probe.key, g_probe.mask))
                and result[0] == g_sorted and result[1] == g_aliases0)


# ---- ordered covering: choosing the merge (_get_best_merge, one candidate) ---------------------------------------------------------
def _refine_ext(E, args, kwargs, st, node):
    s = st.copy()
    a = list(args) + [None] * (3 - len(args))
    s.trace = _ListV(s.trace.items + (("refine", a[0], kwargs.get("aliases", a[1]), kwargs.get("min_goodness", a[2])),))
    return [(s, st.env["g_refined"])]


def best_so_far_is_safe(best_merge, best_goodness):
    """nothing chosen yet (the empty merge, bar at 0), or a merge that passed both checks and whose goodness is the bar"""
    return ((best_goodness == 0 and best_merge.goodness <= 0)
            or (best_goodness > 0 and best_merge.goodness == best_goodness and down_ok(best_merge) and up_ok(best_merge)))


@contract("rig/routing_table/ordered_covering.py::_get_best_merge@forbody:0")
class BestMergeStep:
    """one candidate: it is refined against the CURRENT bar with the aliases given, and replaces the best merge so far only if
    its refined form is strictly better - so the merge returned is the empty one or one that passed both checks"""
    properties = ("C04", "C01")
    params = dict(merge=MERGE_ID, best_merge=MERGE_ID, best_goodness=TInt(0, None), aliases=TInt(), g_refined=MERGE_ID)
    fragment_result = ("best_merge", "best_goodness")
    fragment_head = "for merge in _get_all_merges(routing_table):"
    externals = {"def:_refine_merge": _refine_ext}
    assumptions = ["_refine_merge is used by its contract (RefineMerge): a result above the bar passed both checks"]

    def native(merge):
        raise __import__("pyvc.replay", fromlist=["OutsideHarness"]).OutsideHarness()

    def requires(best_merge, best_goodness, g_refined):
        return (best_so_far_is_safe(best_merge, best_goodness)
                and implies(g_refined.goodness > best_goodness, down_ok(g_refined) and up_ok(g_refined)))

    def ensures_the_best_so_far_stays_safe(result):
        return best_so_far_is_safe(result[0], result[1])

    def ensures_refined_against_the_current_bar_and_taken_only_if_better(merge, best_merge, best_goodness, aliases, g_refined, result, _trace):
        return (implies(merge.goodness <= best_goodness, len(_trace) == 0 and result == (best_merge, best_goodness))
                and implies(merge.goodness > best_goodness,
                            len(_trace) == 1 and _trace[0] == ("refine", merge, aliases, best_goodness)
                            and result == ite(g_refined.goodness > best_goodness, (g_refined, g_refined.goodness), (best_merge, best_goodness))))


# ---- ordered covering: the entry point (minimise) -------------------------------------------------------------------------------------
def _oc_ext(E, args, kwargs, st, node):
    s = st.copy()
    a = list(args) + [None] * (2 - len(args))
    s.trace = _ListV(s.trace.items + (("ordered_covering", a[0], kwargs.get("target_length", a[1]), tuple(sorted((k, v) for k, v in kwargs.items() if k != "target_length"))),))
    return [(s, (st.env["g_table"], st.env["g_aliases"]))]


def _rdr_ext(E, args, kwargs, st, node):
    """remove_default_routes.minimise (contract RemoveDefaultRoutes): recorded with the value of check_for_aliases it runs with"""
    from pyvc.engine import Raised
    s = st.copy()
    a = list(args) + [None] * (2 - len(args))
    chk = kwargs.get("check_for_aliases", args[2] if len(args) > 2 else True)
    s.trace = _ListV(s.trace.items + (("remove_default_routes", a[0], kwargs.get("target_length", a[1]), chk),))
    ok = s.assume(z3.Not(st.env["g_fail"]))
    bad = s.assume(st.env["g_fail"])
    return [(ok, st.env["g_out"]), (bad, Raised(_ExcV("MinimisationFailedError", (a[1], 0))))]


@contract("rig/routing_table/ordered_covering.py::minimise")
class OrderedCoveringMinimise:
    """the entry point: ordered covering (never failing by itself), then default-route removal WITH its alias check on the
    merged table - merged entries overlap, so an entry may only be left to default routing when nothing below it matches"""
    properties = ("C04", "C01")
    params = dict(routing_table=TBL, target_length=TOpt(TInt(0, None)), g_table=TBL, g_aliases=ALI, g_out=TBL, g_fail=TBool())
    result = TBL
    externals = {"def:ordered_covering": _oc_ext, "def:minimise": _rdr_ext}
    raises = {"MinimisationFailedError": None}
    assumptions = ["ordered_covering and remove_default_routes.minimise are used by their contracts (OrderedCoveringLoop, RemoveDefaultRoutes)"]

    def native(routing_table):
        raise __import__("pyvc.replay", fromlist=["OutsideHarness"]).OutsideHarness()

    def raises_MinimisationFailedError(g_fail):
        return g_fail

    def ensures_covering_then_default_route_removal_with_the_alias_check(routing_table, target_length, g_table, g_out, result, _trace):
        return (len(_trace) == 2 and _trace[0] == ("ordered_covering", routing_table, target_length, (("no_raise", True),))
                and _trace[1] == ("remove_default_routes", g_table, target_length, True)
                and result == g_out)


# ---- ordered covering: applying a merge (_Merge.apply), one entry of the old table (fragment) -----------------------------------------
MERGE_AP = TRec("_Merge", entries=_TSet(TInt()), insertion_index=TInt(0, None))
ENTRY_ID = TRec("RoutingTableEntry", ident=TInt(), key=KEY, mask=KEY)


def _rec_setitem(E, obj, args, kwargs, st, node):
    s = st.copy()
    s.trace = _ListV(s.trace.items + (("store", args[0], args[1]),))
    return [(s, _NONE, None)]


def _aliases_pop(E, obj, args, kwargs, st, node):
    """aliases.pop(km, default): recorded with the key and whether the default is exactly the one-element set {km}"""
    from pyvc.values import LitSet
    d = args[1] if len(args) > 1 else None
    dflt_is_km = isinstance(d, LitSet) and len(d.items) == 1 and d.conds is None and d.items[0] is args[0]
    s = st.copy()
    s.trace = _ListV(s.trace.items + (("pop", args[0], dflt_is_km),))
    return [(s, st.env["g_popped"], None)]


def _aliasset_update(E, obj, args, kwargs, st, node):
    s = st.copy()
    s.trace = _ListV(s.trace.items + (("update", args[0]),))
    return [(s, _NONE, None)]


@contract("rig/routing_table/ordered_covering.py::_Merge.apply@forbody:0")
class MergeApplyStep:
    """one entry of the old table: the merged entry is written first when this is the insertion point; an entry that is not a
    member is copied to the NEXT free position (so non-members keep their order and nothing is overwritten or skipped); a
    member is not copied - the originals it stands for (its aliases, or itself) move to the merged entry's aliases"""
    properties = ("C04", "C01")
    params = dict(self=MERGE_AP, i=TInt(0, None), entry=ENTRY_ID, new_entry=ENTRY_ID, insert=TInt(0, None),
                  new_table=TRec("NewTable"), aliases=TRec("AliasDict"), our_aliases=TRec("AliasSet"), g_popped=TRec("AliasSet"))
    fragment_result = ("insert",)
    fragment_head = "for i, entry in enumerate(self.routing_table):"
    externals = {"NewTable.__setitem__": _rec_setitem, "AliasDict.pop": _aliases_pop, "AliasSet.update": _aliasset_update}
    assumptions = ["the new table, the alias dictionary and the merged entry's alias set are opaque here: their operations are recorded"]

    def native(i):
        raise __import__("pyvc.replay", fromlist=["OutsideHarness"]).OutsideHarness()

    def ensures_written_in_order_without_gaps(self, i, entry, new_entry, insert, g_popped, result, _trace):
        at_point = i == self.insertion_index
        member = i in self.entries
        k = ite(at_point, 1, 0)
        return (implies(at_point, len(_trace) >= 1 and _trace[0] == ("store", insert, new_entry))
                and implies(not member, len(_trace) == k + 1 and _trace[k] == ("store", insert + k, entry) and result[0] == insert + k + 1)
                and implies(member, len(_trace) == k + 2 and _trace[k] == ("pop", (entry.key, entry.mask), True)
                            and _trace[k + 1] == ("update", g_popped) and result[0] == insert + k))


def _ap_dict(E, args, kwargs, st, node):
    s = st.copy()
    s.trace = _ListV(s.trace.items + (("dict", args[0]),))
    return [(s, st.env["g_copy"])]


def _ap_len(E, args, kwargs, st, node):
    return [(st, args[0].fields["n"])]


def _ap_setitem(E, obj, args, kwargs, st, node):
    from pyvc.values import LitSet, SetV
    v = args[1]
    empty = (isinstance(v, LitSet) and len(v.items) == 0) or (isinstance(v, _ListV) and len(v.items) == 0)
    s = st.copy()
    s.trace = _ListV(s.trace.items + (("setitem", args[0], "empty-set" if empty else v),))
    return [(s, _NONE, None)]


@contract("rig/routing_table/ordered_covering.py::_Merge.apply@if:1")
class MergeApplyEpilogue:
    """after the loop: a merged entry that belongs below every entry of the old table is written at the next free position"""
    properties = ("C04", "C01")
    params = dict(self=TRec("_Merge", insertion_index=TInt(0, None), routing_table=TRec("Table", n=TInt(0, None))), insert=TInt(0, None),
                  new_entry=ENTRY_ID, new_table=TRec("NewTable"))
    fragment_result = ()
    fragment_head = "if self.insertion_index == len(self.routing_table):"
    externals = {"NewTable.__setitem__": _rec_setitem, "len": _ap_len}

    def native(insert):
        raise __import__("pyvc.replay", fromlist=["OutsideHarness"]).OutsideHarness()

    def ensures_appended_exactly_when_it_belongs_at_the_end(self, insert, new_entry, _trace):
        return (implies(self.insertion_index == self.routing_table.n, len(_trace) == 1 and _trace[0] == ("store", insert, new_entry))
                and implies(self.insertion_index != self.routing_table.n, len(_trace) == 0))


def _first_member(E, args, kwargs, st, node):
    """next(iter(entries)): SOME member of the merge (ghost g_member, assumed to be one)"""
    return [(st, st.env["g_member"])]


def _iter_id(E, args, kwargs, st, node):
    return [(st, args[0])]


def _table_getitem(E, obj, args, kwargs, st, node):
    s = st.copy()
    s.trace = _ListV(s.trace.items + (("entry", args[0]),))
    return [(s, st.env["g_entry"], None)]


@contract("rig/routing_table/ordered_covering.py::_Merge.apply@seq:2:3")
class MergeApplyPrologue:
    """before the loop: the caller's alias dictionary is copied; the merged entry carries the route of a MEMBER of the merge
    and the merge's own key, mask and sources; and it starts with an empty alias set of its own under its (key, mask)"""
    properties = ("C04", "C01")
    params = dict(self=TRec("_Merge", routing_table=TRec("Table"), entries=TRec("Entries"), key=KEY, mask=KEY, sources=TSmallSet([None] + ROUTES)),
                  aliases=TRec("AliasDict0"), g_copy=TRec("AliasDict"), g_member=TInt(0, None), g_entry=ENTRY)
    options = {"int_class": "rig/routing_table/entries.py::Routes"}
    fragment_result = ("new_entry",)
    fragment_head = "aliases = dict(aliases)"
    externals = {"dict": _ap_dict, "iter": _iter_id, "next": _first_member, "Table.__getitem__": _table_getitem, "AliasDict.__setitem__": _ap_setitem}
    assumptions = ["next(iter(entries)) is some member of the merge (ghost), table[i] is recorded and returns a ghost entry"]

    def native(aliases):
        raise __import__("pyvc.replay", fromlist=["OutsideHarness"]).OutsideHarness()

    def ensures_merged_entry_has_a_members_route_and_the_merges_key_mask_sources(self, aliases, g_member, g_entry, result, _trace):
        ne = result[0]
        return (len(_trace) == 3 and _trace[0] == ("dict", aliases) and _trace[1] == ("entry", g_member)
                and _trace[2] == ("setitem", (self.key, self.mask), "empty-set")
                and ne.route == g_entry.route and ne.key == self.key and ne.mask == self.mask and ne.sources == self.sources)


# ---- ordered covering: the skeleton of the down-check (_refine_downcheck) ----------------------------------------------------------
# The CHOICE of the members to remove (two loops over sets of (bit, value) pairs) is a heuristic: which members go does not matter
# for correctness, only that the loop ends with a merge whose covered list - recomputed from the CURRENT merge in every turn - is
# empty, or with the empty merge.  The two choice loops are abstracted (their results arbitrary); what is proved is the skeleton.
MERGE_DC = TRec("_Merge", ident=TInt(), goodness=TInt(), routing_table=TInt(), entries=TInt())


def covered_count(merge, aliases):
    """number of (key, mask) pairs the down-check finds covered for this merge with these aliases"""
    return uf("covered_count", merge.ident, aliases)


def _covered_ext(E, args, kwargs, st, node):
    """list(_get_covered_keys_and_masks(merge, aliases)) (its loop step is under contract: CoveredAliasStep): a sequence whose
    length is a function of the merge and the aliases given"""
    cov, facts = _fresh(TSeq(TTuple(KEY, KEY)), "covered")
    s = st.assume(*facts)
    s = s.assume(to_int(cov.length) == uf_term("covered_count", args[0].fields["ident"], args[1]))
    return [(s, cov)]


def to_int(t):
    return t if z3.is_expr(t) else z3.IntVal(t)


def _dc_new_merge(E, args, kwargs, st, node):
    """_Merge(table, entries): a new merge (fresh identity); built from the empty set its goodness is -1"""
    from pyvc.values import LitSet
    m, facts = _fresh(MERGE_DC, "newmerge")
    s = st.assume(*facts)
    s = s.assume(m.fields["routing_table"] == args[0])
    if len(args) > 1 and isinstance(args[1], LitSet) and len(args[1].items) == 0:
        s = s.assume(m.fields["goodness"] == -1, uf_term("is_empty_merge", m.fields["ident"]) == 1)
    return [(s, m)]


def _dc_setsub(E, obj, args, kwargs, st, node):
    return [(st, z3.Int(__import__("pyvc.values", fromlist=["fresh_name"]).fresh_name("entries_left")), None)]


@contract("rig/routing_table/ordered_covering.py::_refine_downcheck")
class DowncheckSkeleton:
    """whatever members the heuristic removes: the merge returned is the empty merge, or a merge for which the covered list -
    recomputed from that very merge and the aliases given - was found empty"""
    properties = ("C04", "C01")
    params = dict(merge=MERGE_DC, aliases=TInt(), min_goodness=TInt())
    result = MERGE_DC
    externals = {"def:_get_covered_keys_and_masks": _covered_ext, "class:_Merge": _dc_new_merge}
    loop_headers = {0: "while merge.goodness > min_goodness:"}
    abstracted = {"for (key, mask) in covered:": {"most_stringent": TInt(0, 33), "bits_and_vals": TInt()},
                  "for (bit, val) in sorted(bits_and_vals, reverse=True):": {"remove": TInt()}}
    options = {"var_shapes": {"merge": MERGE_DC}}
    assumptions = ["sets of table indices are opaque integers here (entries - remove is some set); _Merge(table, entries) returns a new merge "
                   "on the same table, of goodness -1 when built from the empty set; the covered list is a function of (merge, aliases)"]

    def native(merge):
        raise __import__("pyvc.replay", fromlist=["OutsideHarness"]).OutsideHarness()

    def inv_0_same_table(merge, old_merge):
        return merge.routing_table == old_merge.routing_table

    def ensures_nothing_below_is_covered_or_the_merge_is_empty(aliases, result):
        return covered_count(result, aliases) == 0 or uf("is_empty_merge", result.ident) == 1

    def ensures_on_the_same_table(merge, result):
        return result.routing_table == merge.routing_table


# ---- ordered covering: why removing members from a merge can only move its insertion point up the table ---------------------------------
def _popcount_x(key, mask):
    return sum((1 if ((~key & ~mask) & (1 << i)) != 0 else 0) for i in range(32))


@lemma("adding_a_member_only_widens_the_merged_entry")
class MergeMaskMonotone:
    """folding one more member into the accumulators of _Merge.__new__ can only clear bits of the merged mask (and the merged key
    stays inside the mask): a merge of fewer members has a mask that contains the mask of the larger merge"""
    properties = ("C04", "C01")
    bv = 40
    params = dict(any_ones=KEY, all_ones=KEY, all_selected=KEY, key=KEY, mask=KEY)

    def assuming(any_ones, all_ones, all_selected, key, mask):
        # (at least one member has been folded already: every bit set in all of them is set in some of them)
        return well_formed(key, mask) and (all_ones & ~any_ones) == 0

    def claim(any_ones, all_ones, all_selected, key, mask):
        m1 = all_selected & (any_ones ^ ~all_ones)
        a2, o2, s2 = any_ones | key, all_ones & key, all_selected & mask
        m2 = s2 & (a2 ^ ~o2)
        return (m2 & ~m1) == 0 and ((o2 & m2) & ~m2) == 0


@lemma("a_narrower_mask_is_at_least_as_general")
class GeneralityMonotone:
    """for entries whose key lies inside their mask (every merged entry), a mask with fewer bits has at least as many Xs: so the
    merge of fewer members is at most as general, and _get_insertion_index (InsertionIndex: first position of equal or greater
    generality in a table listed by generality) places it at or above the place of the larger merge - which is why a member
    that passed the up-check still passes it after other members were removed"""
    properties = ("C04", "C01")
    bv = 40
    params = dict(k1=KEY, m1=KEY, k2=KEY, m2=KEY)

    def assuming(k1, m1, k2, m2):
        return well_formed(k1, m1) and well_formed(k2, m2) and (m2 & ~m1) == 0

    def claim(k1, m1, k2, m2):
        return _popcount_x(k2, m2) >= _popcount_x(k1, m1)
