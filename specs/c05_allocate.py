"""C05 -- allocator helpers (rig/place_and_route/allocate/utils.py).  greedy.allocate itself
(dicts of dicts of lists keyed by user objects) is decided by bounded/c05_allocate.py."""
from pyvc.spec import contract, lemma
from pyvc.values import TInt, TRec, TNone
from pyvc.speclib import implies, iff, exists_range

SLICE = TRec("slice", start=TInt(), stop=TInt(), step=TNone())


@contract("rig/place_and_route/allocate/utils.py::slices_overlap")
class SlicesOverlap:
    properties = ("C05",)
    params = dict(slice_a=SLICE, slice_b=SLICE)

    def native(slice_a, slice_b):
        from rig.place_and_route.allocate.utils import slices_overlap
        return slices_overlap(slice(slice_a.start, slice_a.stop), slice(slice_b.start, slice_b.stop))

    def ensures_true_iff_the_ranges_share_a_point(slice_a, slice_b, result):
        # (any shared point lies between the smaller start and the larger stop)
        return iff(result, exists_range(min(slice_a.start, slice_b.start), max(slice_a.stop, slice_b.stop),
                                        lambda p: slice_a.start <= p < slice_a.stop and slice_b.start <= p < slice_b.stop))

    def ensures_symmetric_closed_form(slice_a, slice_b, result):
        return iff(result, slice_a.start < slice_b.stop and slice_b.start < slice_a.stop
                   and slice_a.start < slice_a.stop and slice_b.start < slice_b.stop)


@contract("rig/place_and_route/allocate/utils.py::align")
class Align:
    properties = ("C05",)
    sample_wide = True
    params = dict(value=TInt(), alignment=TInt(1, None))

    def ensures_least_multiple_not_below(value, alignment, result):
        # a multiple of the alignment (witness: the quotient the code computes) in [value, value+alignment)
        return (result == ((value + alignment - 1) // alignment) * alignment
                and value <= result < value + alignment)
