"""C05 -- allocator helpers (rig/place_and_route/allocate/utils.py).  greedy.allocate itself
(dicts of dicts of lists keyed by user objects) is decided by bounded/c05_allocate.py."""
from pyvc.spec import contract, lemma
from pyvc.values import TInt, TRec, TNone
from pyvc.speclib import implies, iff, exists_range

SLICE = TRec("slice", start=TInt(), stop=TInt(), step=TNone())


@contract("rig/place_and_route/allocate/utils.py::slices_overlap")
class SlicesOverlap:
    properties = ("C05",)
    params = dict(slice_a=SLICE, slice_b=SLICE)

    def native(slice_a, slice_b):
        from rig.place_and_route.allocate.utils import slices_overlap
        return slices_overlap(slice(slice_a.start, slice_a.stop), slice(slice_b.start, slice_b.stop))

    def ensures_true_iff_the_ranges_share_a_point(slice_a, slice_b, result):
        # (any shared point lies between the smaller start and the larger stop)
        return iff(result, exists_range(min(slice_a.start, slice_b.start), max(slice_a.stop, slice_b.stop),
                                        lambda p: slice_a.start <= p < slice_a.stop and slice_b.start <= p < slice_b.stop))

    def ensures_symmetric_closed_form(slice_a, slice_b, result):
        return iff(result, slice_a.start < slice_b.stop and slice_b.start < slice_a.stop
                   and slice_a.start < slice_a.stop and slice_b.start < slice_b.stop)


@contract("rig/place_and_route/allocate/utils.py::align")
class Align:
    properties = ("C05",)
    sample_wide = True
    params = dict(value=TInt(), alignment=TInt(1, None))

    def ensures_least_multiple_not_below(value, alignment, result):
        # a multiple of the alignment (witness: the quotient the code computes) in [value, value+alignment)
        return (result == ((value + alignment - 1) // alignment) * alignment
                and value <= result < value + alignment)


# ---- the allocation decision itself: the `while proposal_overlaps:` loop of greedy.allocate, extracted mechanically --------
from pyvc.values import TSeq, TMap, TTuple, TBool   # noqa: E402
from pyvc.speclib import forall_range, select, seq_len, forall_int   # noqa: E402

RESERVATIONS = TSeq(SLICE)


def _lookup_env(name):
    def handler(E, obj, args, kwargs, st, node):
        return [(st, st.env[name], None)]
    return handler


def _local_get(E, obj, args, kwargs, st, node):
    """locally_reserved.get(xy, {}) -> an object whose .get(resource, []) is the list of this chip's reservations"""
    from pyvc.values import ObjV
    return [(st, ObjV("LocalOfChip", {}), None)]


def overlaps(a_start, a_stop, r):
    return max(a_start, r.start) < min(a_stop, r.stop)


def aligned_up(v, a):
    return ((v + a - 1) // a) * a


@contract("rig/place_and_route/allocate/greedy.py::allocate@forbody:4")
class AllocateOneResource:
    fragment_head = "for resource, requirement in iteritems(vertices_resources[vertex]):"
    """One vertex, one resource: ONE iteration of `for resource, requirement in iteritems(vertices_resources[vertex])` - the
    loop that proposes ranges until one is free, and the two statements that record the range and advance the chip's pointer.
    Extracted on every run as a function of its free variables (what the extraction drops: everything of allocate() outside
    this loop body - constraint collection and the loops over chips, vertices and resources that drive it).  The three
    container look-ups are abstracted: globally_reserved[resource] and locally_reserved.get(xy, {}).get(resource, []) are the
    reservation lists g_glob / g_loc, machine[xy] is the chip's resource map g_chip."""
    properties = ("C05",)
    params = dict(resource=TInt(), requirement=TInt(0, None), vertex_allocation=TMap(TInt(), SLICE),
                  resource_pointers=TMap(TInt(), TInt()), alignments=TMap(TInt(), TInt(1, None)),
                  machine=TRec("Machine"), xy=TTuple(TInt(), TInt()), globally_reserved=TRec("GlobalRes"), locally_reserved=TRec("LocalRes"),
                  g_glob=RESERVATIONS, g_loc=RESERVATIONS, g_chip=TMap(TInt(), TInt()))
    fragment_result = ("vertex_allocation", "resource_pointers")
    modular = ("rig/place_and_route/allocate/utils.py::align", "rig/place_and_route/allocate/utils.py::slices_overlap")
    externals = {"GlobalRes.__getitem__": _lookup_env("g_glob"), "LocalRes.get": _local_get, "LocalOfChip.get": _lookup_env("g_loc"),
                 "Machine.__getitem__": _lookup_env("g_chip")}
    options = {"var_shapes": {"proposed_allocation": SLICE, "start": TInt(), "local_reservations": RESERVATIONS, "proposal_overlaps": TBool()}}
    raises = {"InsufficientResourceError": None}
    loop_headers = {1: "while proposal_overlaps:", 2: "for reservation in globally_reserved[resource]:", 3: "for reservation in local_reservations:"}
    assumptions = ["defaultdict / dict look-ups of the allocator are abstracted by their values for this vertex (alignment >= 1 present for the resource, reservation lists as ghost inputs)"]

    def native(requirement):
        raise __import__("pyvc.replay", fromlist=["OutsideHarness"]).OutsideHarness()

    def requires(resource, resource_pointers, alignments, g_chip):
        # (pointers start at 0 and only ever move to the end of a proposal or of a reservation overlapping one)
        return resource in resource_pointers and resource_pointers[resource] >= 0 and resource in alignments and resource in g_chip

    # ---- loop 1: propose, test, move on
    def inv_1_pointer_map_keeps_its_keys_and_only_moves_forward(resource, resource_pointers, old_resource_pointers):
        return (resource in resource_pointers and resource_pointers[resource] >= old_resource_pointers[resource]
                and forall_int(lambda k: implies(k != resource, (k in resource_pointers) == (k in old_resource_pointers)
                                                 and implies(k in resource_pointers, resource_pointers[k] == old_resource_pointers[k]))))

    def inv_1_an_accepted_proposal_is_good(proposal_overlaps, proposed_allocation, resource, requirement, resource_pointers, alignments, g_chip, g_glob, g_loc):
        return proposal_overlaps or (
            proposed_allocation.start == aligned_up(resource_pointers[resource], alignments[resource])
            and proposed_allocation.start >= resource_pointers[resource]
            and proposed_allocation.stop == proposed_allocation.start + requirement
            and proposed_allocation.stop <= g_chip[resource]
            and forall_range(0, seq_len(g_glob), lambda j: not overlaps(proposed_allocation.start, proposed_allocation.stop, select(g_glob, j)))
            and forall_range(0, seq_len(g_loc), lambda j: not overlaps(proposed_allocation.start, proposed_allocation.stop, select(g_loc, j))))

    def inv_1_allocation_of_the_other_resources_untouched(vertex_allocation, old_vertex_allocation):
        return forall_int(lambda k: (k in vertex_allocation) == (k in old_vertex_allocation)
                          and implies(k in vertex_allocation, vertex_allocation[k] == old_vertex_allocation[k]))

    def variant_1(proposal_overlaps, resource, resource_pointers, g_chip):
        # every further round starts strictly further up; a round that starts beyond the chip's capacity raises
        return max(0, g_chip[resource] - resource_pointers[resource] + 1) + (1 if proposal_overlaps else 0)

    # ---- loop 2: global reservations
    def inv_2_flag_says_whether_a_global_reservation_seen_so_far_overlaps(proposal_overlaps, proposed_allocation, g_glob, _k2):
        return proposal_overlaps == exists_range(0, _k2, lambda j: overlaps(proposed_allocation.start, proposed_allocation.stop, select(g_glob, j)))

    def inv_2_pointer(proposal_overlaps, proposed_allocation, resource, resource_pointers, pre_resource_pointers):
        return (resource in resource_pointers
                and (resource_pointers[resource] == pre_resource_pointers[resource] if not proposal_overlaps else resource_pointers[resource] > proposed_allocation.start)
                and forall_int(lambda k: implies(k != resource, (k in resource_pointers) == (k in pre_resource_pointers)
                                                 and implies(k in resource_pointers, resource_pointers[k] == pre_resource_pointers[k]))))

    # ---- loop 3: this chip's reservations
    def inv_3_flag_says_whether_any_reservation_seen_so_far_overlaps(proposal_overlaps, proposed_allocation, g_glob, g_loc, _k3):
        return proposal_overlaps == (exists_range(0, seq_len(g_glob), lambda j: overlaps(proposed_allocation.start, proposed_allocation.stop, select(g_glob, j)))
                                     or exists_range(0, _k3, lambda j: overlaps(proposed_allocation.start, proposed_allocation.stop, select(g_loc, j))))

    def inv_3_pointer(proposal_overlaps, proposed_allocation, resource, resource_pointers, pre_resource_pointers):
        return (resource in resource_pointers
                and (resource_pointers[resource] == pre_resource_pointers[resource] if not proposal_overlaps else resource_pointers[resource] > proposed_allocation.start)
                and forall_int(lambda k: implies(k != resource, (k in resource_pointers) == (k in pre_resource_pointers)
                                                 and implies(k in resource_pointers, resource_pointers[k] == pre_resource_pointers[k]))))

    # ---- outcome (result[0] = the vertex's allocation so far, result[1] = the chip's pointers)
    def raises_InsufficientResourceError(resource, g_chip):
        return True     # the documented failure: a proposal would end beyond what the chip has

    def ensures_the_resource_gets_one_range_of_exactly_the_requested_size_inside_the_chip(result, resource, requirement, g_chip):
        r = result[0][resource]
        return resource in result[0] and r.stop - r.start == requirement and 0 <= r.start and r.stop <= g_chip[resource]

    def ensures_it_starts_on_the_alignment_at_or_after_the_chips_pointer(result, resource, alignments, old_resource_pointers):
        r = result[0][resource]
        a = alignments[resource]
        return (r.start >= old_resource_pointers[resource]
                and exists_range(r.start // a, r.start // a + 1, lambda q: r.start == q * a))

    def ensures_it_overlaps_no_reservation(result, resource, g_glob, g_loc):
        r = result[0][resource]
        return (forall_range(0, seq_len(g_glob), lambda j: not overlaps(r.start, r.stop, select(g_glob, j)))
                and forall_range(0, seq_len(g_loc), lambda j: not overlaps(r.start, r.stop, select(g_loc, j))))

    def ensures_the_chips_pointer_moves_to_the_end_of_the_range(result, resource):
        # ... so the next vertex on this chip starts at or after it: ranges of different vertices are disjoint
        return resource in result[1] and result[1][resource] == result[0][resource].stop

    def ensures_other_pointers_and_other_resources_untouched(result, resource, old_resource_pointers, old_vertex_allocation):
        return (forall_int(lambda k: implies(k != resource, (k in result[1]) == (k in old_resource_pointers)
                                             and implies(k in result[1], result[1][k] == old_resource_pointers[k])))
                and forall_int(lambda k: implies(k != resource, (k in result[0]) == (k in old_vertex_allocation)
                                                 and implies(k in result[0], result[0][k] == old_vertex_allocation[k]))))


from pyvc.values import TOpt, TTuple, ListV, NONE, ObjV   # noqa: E402

# ---- allocate(): what one constraint contributes to the tables the allocation step reads (fragment, one contract per kind) ------


def _tbl_get(kind):
    def h(E, obj, args, kwargs, st, node):
        s = st.copy()
        s.trace = ListV(s.trace.items + ((kind, args[0]),))
        return [(s, ObjV({"global": "ResList", "local": "LocalChip", "local_res": "ResList"}[kind], {}), None)]
    return h


def _list_append(E, obj, args, kwargs, st, node):
    s = st.copy()
    s.trace = ListV(s.trace.items + (("append", args[0]),))
    return [(s, NONE, None)]


def _align_set(E, obj, args, kwargs, st, node):
    s = st.copy()
    s.trace = ListV(s.trace.items + (("align_set", args[0], args[1]),))
    return [(s, NONE, None)]


_CONS_EXT = {"GlobalRes.__getitem__": _tbl_get("global"), "LocalRes.__getitem__": _tbl_get("local"), "LocalChip.__getitem__": _tbl_get("local_res"),
             "ResList.append": _list_append, "Alignments.__setitem__": _align_set}
_TABLES = dict(globally_reserved=TRec("GlobalRes"), locally_reserved=TRec("LocalRes"), alignments=TRec("Alignments"))


@contract("rig/place_and_route/allocate/greedy.py::allocate@forbody:0", variant="reservation")
class CollectReservation:
    """a reservation without a location is appended to the GLOBAL list of exactly its resource, one with a location to the list
    of exactly its resource on exactly that chip - the reserved range itself, unchanged - and nothing else happens"""
    properties = ("C05",)
    params = dict(constraint=TRec("ReserveResourceConstraint", resource=TInt(), reservation=SLICE, location=TOpt(TTuple(TInt(), TInt()))), **_TABLES)
    fragment_result = ()
    fragment_head = "for constraint in constraints:"
    externals = _CONS_EXT
    options = {"no_merge": True}
    assumptions = ["the three tables (defaultdicts) are opaque: which entry is looked up / appended to / set is recorded"]

    def native(constraint):
        raise __import__("pyvc.replay", fromlist=["OutsideHarness"]).OutsideHarness()

    def ensures_filed_under_its_own_resource_globally_or_on_its_own_chip(constraint, _trace):
        return (implies(constraint.location is None,
                        len(_trace) == 2 and _trace[0] == ("global", constraint.resource) and _trace[1] == ("append", constraint.reservation))
                and implies(constraint.location is not None,
                            len(_trace) == 3 and _trace[0] == ("local", unopt9(constraint.location)) and _trace[1] == ("local_res", constraint.resource)
                            and _trace[2] == ("append", constraint.reservation)))


def unopt9(x):
    return x


@contract("rig/place_and_route/allocate/greedy.py::allocate@forbody:0", variant="alignment")
class CollectAlignment:
    """an alignment constraint sets the alignment of exactly its resource to exactly its value"""
    properties = ("C05",)
    params = dict(constraint=TRec("AlignResourceConstraint", resource=TInt(), alignment=TInt(1, None)), **_TABLES)
    fragment_result = ()
    fragment_head = "for constraint in constraints:"
    externals = _CONS_EXT

    def native(constraint):
        raise __import__("pyvc.replay", fromlist=["OutsideHarness"]).OutsideHarness()

    def ensures_sets_the_alignment_of_its_resource(constraint, _trace):
        return len(_trace) == 1 and _trace[0] == ("align_set", constraint.resource, constraint.alignment)


@contract("rig/place_and_route/allocate/greedy.py::allocate@forbody:0", variant="other_constraint")
class CollectOther:
    """constraints of other kinds (locations, same-chip groups, route end points) reserve and align nothing"""
    properties = ("C05",)
    params = dict(constraint=TRec("LocationConstraint", vertex=TInt(), location=TTuple(TInt(), TInt())), **_TABLES)
    fragment_result = ()
    fragment_head = "for constraint in constraints:"
    externals = _CONS_EXT

    def native(constraint):
        raise __import__("pyvc.replay", fromlist=["OutsideHarness"]).OutsideHarness()

    def ensures_nothing_is_filed(_trace):
        return len(_trace) == 0
