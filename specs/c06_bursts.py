"""C06 -- the one piece of the SCP burst protocol within reach of contracts: the sequence-number
generator (rig/machine_control/scp_connection.py::seqs).  The protocol itself (sockets, select, a
clock, callbacks, histories of lost and late datagrams) is decided by bounded/c06_bursts.py."""
from pyvc.spec import contract
from pyvc.values import TInt, TConst


@contract("rig/machine_control/scp_connection.py::seqs", variant="16bit")
class Seqs16:
    """the n-th sequence number (n = 0, 1, ...) is n mod 2**16: always a 16-bit value (it is packed
    with struct format H), consecutive numbers differ, and a number recurs only after 2**16 others"""
    properties = ("C06",)
    params = dict()
    options = {"opaque_yields": True}
    ghost_vars = {"g_n": TInt(0, None)}
    loop_headers = {0: "while True:"}
    ghost_updates = {"yield i": ["gupd_count"]}
    ghost_asserts = {"yield i": ["ghost_the_nth_number_is_n_modulo_the_sequence_space"]}

    def native():
        from rig.machine_control.scp_connection import seqs
        import itertools
        return {"__native__": True, "result": None, "first": list(itertools.islice(seqs(), 65540))}

    def native_check(inputs, out):
        return [] if out["first"] == [n % 65536 for n in range(65540)] else ["ghost_the_nth_number_is_n_modulo_the_sequence_space"]

    def gupd_count(g_n):
        return {"g_n": g_n + 1}

    def inv_0_counter(i, g_n):
        return g_n >= 0 and i == g_n % 65536

    def ghost_the_nth_number_is_n_modulo_the_sequence_space(i, g_n):
        # (evaluated after the ghost update: g_n already counts this number)
        return 0 <= i <= 0xffff and i == (g_n - 1) % 65536

    def ensures_never_ends(g_n):
        return False        # unreachable: the generator is infinite


@contract("rig/machine_control/scp_connection.py::seqs", variant="3bit")
class Seqs3:
    properties = ("C06",)
    params = dict(mask=TConst(7))
    options = {"opaque_yields": True}
    ghost_vars = {"g_n": TInt(0, None)}
    loop_headers = {0: "while True:"}
    ghost_updates = {"yield i": ["gupd_count"]}
    ghost_asserts = {"yield i": ["ghost_the_nth_number_is_n_modulo_the_sequence_space"]}

    def native(mask):
        from rig.machine_control.scp_connection import seqs
        import itertools
        return {"__native__": True, "result": None, "first": list(itertools.islice(seqs(7), 40))}

    def native_check(inputs, out):
        return [] if out["first"] == [n % 8 for n in range(40)] else ["ghost_the_nth_number_is_n_modulo_the_sequence_space"]

    def gupd_count(g_n):
        return {"g_n": g_n + 1}

    def inv_0_counter(i, g_n):
        return g_n >= 0 and i == g_n % 8

    def ghost_the_nth_number_is_n_modulo_the_sequence_space(i, g_n):
        return 0 <= i <= 7 and i == (g_n - 1) % 8

    def ensures_never_ends(g_n):
        return False


# ---- the retransmission step of send_scp_burst (one outstanding packet; the loop `for outstanding in itervalues(...)`) ------
from pyvc.values import TRec, TReal, ListV, NONE   # noqa: E402
from pyvc.speclib import implies   # noqa: E402

OUT = TRec("TransmittedPacket", n_tries=TInt(1, None), timeout=TReal(), timeout_time=TReal(), bytestring=TInt(), packet=TInt())


def _sock_send(E, obj, args, kwargs, st, node):
    s = st.copy()
    s.trace = ListV(s.trace.items + (("send", args[0]),))
    return [(s, NONE, None)]


@contract("rig/machine_control/scp_connection.py::SCPConnection.send_scp_burst@forbody:0")
class RetransmitStep:
    """one outstanding packet at the end of a turn of the main loop: nothing happens to it before its deadline has passed;
    after it, the packet is retransmitted unchanged, counted, and given a new deadline one timeout from now - unless it has
    already been transmitted n_tries times, in which case (and only then) TimeoutError is raised and nothing is sent"""
    properties = ("C06",)
    params = dict(self=TRec("SCPConnection", n_tries=TInt(1, None), sock=TRec("Socket")), outstanding=OUT, current_time=TReal())
    fragment_result = ()
    fragment_head = "for outstanding in six.itervalues(outstanding_packets):"
    externals = {"Socket.send": _sock_send}
    raises = {"TimeoutError": None}
    assumptions = ["times are reals (T9); the socket is recorded; the packet and its bytes are opaque identities"]

    def native(current_time):
        raise __import__("pyvc.replay", fromlist=["OutsideHarness"]).OutsideHarness()

    def raises_TimeoutError(self, outstanding, current_time, _trace):
        # only for a packet whose deadline has passed and that has used up all its transmissions; nothing is sent
        return outstanding.timeout_time < current_time and outstanding.n_tries >= self.n_tries and len(_trace) == 0

    def ensures_no_early_retransmission(outstanding, outstanding_post, current_time, _trace):
        return implies(not (outstanding.timeout_time < current_time),
                       len(_trace) == 0 and outstanding_post.n_tries == outstanding.n_tries
                       and outstanding_post.timeout_time == outstanding.timeout_time)

    def ensures_retransmits_once_and_counts_it(self, outstanding, outstanding_post, current_time, _trace):
        return implies(outstanding.timeout_time < current_time,
                       outstanding.n_tries < self.n_tries
                       and len(_trace) == 1 and _trace[0] == ("send", outstanding.bytestring)
                       and outstanding_post.n_tries == outstanding.n_tries + 1
                       and outstanding_post.timeout_time == current_time + outstanding.timeout
                       and outstanding_post.timeout == outstanding.timeout and outstanding_post.bytestring == outstanding.bytestring)


# ---- what a received reply does (the `if rc != ok: ... else: ...` statement of the receive loop) ---------------------------
from pyvc.values import TOpt   # noqa: E402
from pyvc.speclib import iff   # noqa: E402

ENTRY = TOpt(TRec("TransmittedPacket", callback=TInt(), packet=TInt()))
RC_OK, RC_SUM, RC_P2P_BUSY = 0x80, 0x82, 0x8d         # from the SCP specification (sark.h: RC_OK, RC_SUM, RC_P2P_BUSY)


def _dict_get(E, obj, args, kwargs, st, node):
    s = st.copy()
    s.trace = ListV(s.trace.items + (("get", args[0]),))
    return [(s, st.env["g_entry"], None)]


def _dict_pop(E, obj, args, kwargs, st, node):
    s = st.copy()
    s.trace = ListV(s.trace.items + (("pop", args[0]),))
    return [(s, st.env["g_entry"], None)]


def _appendleft(E, obj, args, kwargs, st, node):
    s = st.copy()
    s.trace = ListV(s.trace.items + (("callback_queued",) + tuple(args[0]),))
    return [(s, NONE, None)]


@contract("rig/machine_control/scp_connection.py::SCPConnection.send_scp_burst@if:0")
class ReplyStep:
    """one datagram received: a reply with the OK code takes its command out of the window and queues that command's callback
    with this reply - once, and only if the command is still outstanding (a duplicate or late reply does nothing); the two
    retryable codes do nothing at all (the command stays outstanding and times out); every other code raises
    FatalReturnCodeError and removes nothing"""
    properties = ("C06",)
    params = dict(rc=TInt(0, 0xffff), seq=TInt(0, 0xffff), ack=TInt(), outstanding_packets=TRec("Dict"), outstanding_callbacks=TRec("Deque"),
                  g_entry=ENTRY)
    fragment_result = ()
    fragment_head = "if rc != consts.SCPReturnCodes.ok:"
    externals = {"Dict.get": _dict_get, "Dict.pop": _dict_pop, "Deque.appendleft": _appendleft}
    options = {"int_class": "rig/machine_control/consts.py::SCPReturnCodes"}
    raises = {"FatalReturnCodeError": None}
    assumptions = ["the window (a dict of mutable packet records) and the callback queue are opaque objects: what is looked up, removed and queued is recorded; g_entry is what the window holds for this sequence number (None: nothing)"]

    def native(rc):
        raise __import__("pyvc.replay", fromlist=["OutsideHarness"]).OutsideHarness()

    def raises_FatalReturnCodeError(rc, seq, _trace):
        return (rc != RC_OK and rc != RC_SUM and rc != RC_P2P_BUSY
                and all(t[0] == "get" for t in _trace))          # (the command may be looked up for the message; nothing is removed or queued)

    def ensures_ok_completes_the_command_once(rc, seq, ack, g_entry, _trace):
        return implies(rc == RC_OK,
                       len(_trace) >= 1 and _trace[0] == ("pop", seq)
                       and iff(g_entry is None, len(_trace) == 1)
                       and implies(g_entry is not None, len(_trace) == 2 and _trace[1] == ("callback_queued", g_entry.callback, ack)))

    def ensures_retryable_codes_change_nothing(rc, _trace):
        return implies(rc != RC_OK, (rc == RC_SUM or rc == RC_P2P_BUSY) and len(_trace) == 0)


# ---- the window-fill step of send_scp_burst (one new command; body of `while len(outstanding_packets) < window_size and ...`) ----
import z3   # noqa: E402
from pyvc.values import fresh as _fresh, ExcV as _ExcV, ObjV as _ObjV, TBool   # noqa: E402
from pyvc.speclib import uf   # noqa: E402

ARGS = TRec("scpcall", x=TInt(0, 255), y=TInt(0, 255), p=TInt(0, 31), cmd=TInt(0, 0xffff), arg1=TInt(), arg2=TInt(), arg3=TInt(), data=TInt(),
            callback=TInt(), timeout=TReal())


def _uf(name, *terms):
    return z3.Function("uf_" + name, *([z3.IntSort()] * (len(terms) + 1)))(*[t if z3.is_expr(t) else z3.IntVal(t) for t in terms])


def _next(E, args, kwargs, st, node):
    from pyvc.engine import Raised
    obj = args[0]
    if obj.cls == "Iterator":
        # the caller's iterable of commands: exhausted (ghost g_exhausted) or yields the ghost command g_args
        more = st.assume(z3.Not(st.env["g_exhausted"]))
        done = st.assume(st.env["g_exhausted"])
        return [(more, st.env["g_args"]), (done, Raised(_ExcV("StopIteration", ())))]
    if obj.cls == "SeqGen":
        # the connection's sequence-number generator (contract Seqs16: numbers 0..65535): some number, recorded
        v, facts = _fresh(TInt(0, 0xffff), "seqno")
        s = st.assume(*facts)
        s.trace = ListV(s.trace.items + (("seq", v),))
        return [(s, v)]
    raise __import__("pyvc.values", fromlist=["EngineError"]).EngineError("next() of %s" % obj.cls)


def in_window(seq):
    """the sequence number is that of a command still outstanding (in the window)"""
    return uf("in_window", seq) == 1


def _win_contains(E, obj, args, kwargs, st, node):
    return [(st, _uf("in_window", args[0]) == 1, None)]


def _win_set(E, obj, args, kwargs, st, node):
    s = st.copy()
    s.trace = ListV(s.trace.items + (("window_put", args[0], args[1]),))
    return [(s, NONE, None)]


def _win_get(E, obj, args, kwargs, st, node):
    for t in reversed(st.trace.items):
        if t[0] == "window_put" and t[1] is args[0]:
            return [(st, t[2], None)]
    raise __import__("pyvc.values", fromlist=["EngineError"]).EngineError("window lookup of a number not just stored")


def _new_packet(E, args, kwargs, st, node):
    s = st.copy()
    s.trace = ListV(s.trace.items + (("packet", tuple(sorted(kwargs.items()))),))
    pk, facts = _fresh(TRec("SCPPacket", ident=TInt(), bytestring=TInt()), "packet")
    return [(s.assume(*facts), pk)]


def _new_tp(E, obj, args, kwargs, st, node):
    return [(st, _ObjV("TransmittedPacket", {"callback": args[0], "packet": args[1], "timeout": args[2], "bytestring": args[1].fields["bytestring"]}), None)]


@contract("rig/machine_control/scp_connection.py::SCPConnection.send_scp_burst@whilebody:1")
class WindowFillStep:
    """one turn of the window-fill loop: when the caller's commands are used up nothing is sent and filling stops; otherwise
    the next command gets a sequence number that NO outstanding command has (numbers are drawn until one is free), is packed
    with exactly its own destination, command, arguments and data and that number, is put into the window under that number
    with its callback and the timeout default + its own extra, and is transmitted once"""
    properties = ("C06",)
    params = dict(self=TRec("SCPConnection", seq=TRec("SeqGen"), sock=TRec("Socket"), default_timeout=TReal()),
                  parameters_and_callbacks=TRec("Iterator"), queued_packets=TBool(), outstanding_packets=TRec("Window"),
                  TransmittedPacket=TRec("TPClass"), g_args=ARGS, g_exhausted=TBool())
    fragment_result = ("queued_packets",)
    fragment_head = "while len(outstanding_packets) < window_size and queued_packets:"
    externals = {"next": _next, "Window.__contains__": _win_contains, "Window.__setitem__": _win_set, "Window.__getitem__": _win_get,
                 "class:SCPPacket": _new_packet, "TPClass.__call__": _new_tp, "Socket.send": _sock_send}
    loop_headers = {1: "while seq in outstanding_packets:"}
    options = {"no_merge": True}
    assumptions = ["the window, the caller's iterator, the sequence generator (contract Seqs16) and the socket are opaque objects whose operations are recorded; "
                   "membership of the window is a function of the sequence number; TransmittedPacket(callback, packet, timeout) is the record of its arguments; "
                   "termination of the number-drawing loop is not proved (it ends because the window is smaller than the sequence space)"]

    def native(queued_packets):
        raise __import__("pyvc.replay", fromlist=["OutsideHarness"]).OutsideHarness()

    def requires(queued_packets):
        return queued_packets

    def inv_1_a_sequence_number(seq):
        return 0 <= seq <= 0xffff

    def ensures_stops_when_the_commands_are_used_up(g_exhausted, result, _trace):
        return implies(g_exhausted, not result[0] and len(_trace) == 0) and implies(not g_exhausted, result[0])

    def ensures_new_command_gets_a_free_number_and_is_sent_once_as_given(self, g_args, g_exhausted, _trace):
        n = len(_trace)
        sq = _trace[n - 2][1]           # the number the command is filed under in the window
        return implies(not g_exhausted,
                       n >= 4 and _trace[n - 3][0] == "packet" and _trace[n - 2][0] == "window_put" and _trace[n - 1][0] == "send"
                       and 0 <= sq <= 0xffff and not in_window(sq)
                       and _trace[n - 3][1] == (("arg1", g_args.arg1), ("arg2", g_args.arg2), ("arg3", g_args.arg3), ("cmd_rc", g_args.cmd), ("data", g_args.data),
                                                ("dest_cpu", g_args.p), ("dest_port", 0), ("dest_x", g_args.x), ("dest_y", g_args.y), ("reply_expected", True),
                                                ("seq", sq), ("src_cpu", 31), ("src_port", 7), ("src_x", 0), ("src_y", 0), ("tag", 255))
                       and _trace[n - 2][2].callback == g_args.callback and _trace[n - 2][2].timeout == self.default_timeout + g_args.timeout
                       and _trace[n - 1] == ("send", _trace[n - 2][2].packet.bytestring))


# ---- a new connection: its own socket to exactly the host and port given, its own sequence numbers ---------------------------------
def _sock_new(E, args, kwargs, st, node):
    from pyvc.values import ListV as _L, ObjV as _O
    s = st.copy()
    s.trace = _L(s.trace.items + (("socket",) + tuple(args),))
    return [(s, _O("Socket", {"ident": 41}))]


def _sock_connect(E, obj, args, kwargs, st, node):
    from pyvc.values import ListV as _L, NONE as _N
    s = st.copy()
    s.trace = _L(s.trace.items + (("connect", obj.fields["ident"]) + tuple(args),))
    return [(s, _N, obj)]


def _seqs_new(E, args, kwargs, st, node):
    from pyvc.values import ListV as _L, ObjV as _O
    s = st.copy()
    s.trace = _L(s.trace.items + (("seqs",) + tuple(args) + tuple(sorted(kwargs.items())),))
    return [(s, _O("Seqs", {"ident": 42}))]


import socket as _socket_mod   # noqa: E402
assert (int(_socket_mod.AF_INET), int(_socket_mod.SOCK_DGRAM)) == (2, 2)


@contract("rig/machine_control/scp_connection.py::SCPConnection.__init__")
class ConnectionInit:
    """a connection is one datagram socket connected to exactly (host, port) as given, keeps exactly the number of tries and the
    timeout given, and draws its sequence numbers from a generator of its OWN, started for it with the full 16-bit space (two
    connections never share a counter)"""
    properties = ("C06", "C17")
    params = dict(self=TRec("SCPConnection"), spinnaker_host=TInt(), port=TInt(1, 65535), n_tries=TInt(1, 100), timeout=TReal())
    externals = {"socket": _sock_new, "Socket.connect": _sock_connect, "def:seqs": _seqs_new}
    assumptions = ["socket.socket / connect and the generator function seqs (contract Seqs) are recorded; AF_INET / SOCK_DGRAM are the "
                   "interpreter's constants"]

    def native(x):
        raise __import__("pyvc.replay", fromlist=["OutsideHarness"]).OutsideHarness()

    def ensures_own_socket_to_the_host_given_and_own_counter(self_post, spinnaker_host, port, n_tries, timeout, _trace):
        # (2, 2: AF_INET and SOCK_DGRAM - an IPv4 datagram socket; compared with the interpreter's constants below)
        return (len(_trace) == 3 and _trace[0] == ("socket", 2, 2)
                and _trace[1] == ("connect", 41, (spinnaker_host, port)) and _trace[2] == ("seqs",)
                and self_post.sock.ident == 41 and self_post.seq.ident == 42
                and self_post.n_tries == n_tries and self_post.default_timeout == timeout)


# ---- send_scp: one command as a burst of one, the reply decoded with the number of arguments the caller expects ---------------------
def _burst_rec(E, obj, args, kwargs, st, node):
    from pyvc.values import ListV as _L, NONE as _N
    call = args[2].items[0]
    f = call.fields if hasattr(call, "fields") else None
    vals = tuple(f[k] for k in ("x", "y", "p", "cmd", "arg1", "arg2", "arg3", "data", "timeout")) if f is not None else tuple(call[:8]) + (call[9],)
    cb = f["callback"] if f is not None else call[8]
    s = st.copy()
    s.trace = _L(s.trace.items + (("burst", args[0], args[1], len(args[2].items)) + vals,))
    # the burst calls the one command's callback once with the reply: evaluated as `<the caller's variable holding it>.__call__(g_raw)`
    # so that what the callback object remembers is visible to the caller afterwards
    import ast as _ast
    name = next(k for k, v in st.env.items() if v is cb)
    expr = _ast.parse("%s.__call__(g_raw)" % name, mode="eval").body
    for n_ in _ast.walk(expr):
        _ast.copy_location(n_, node)
    return [(s2, _N, None) for s2, _v in E.ev(expr, s)]


def _parse_rec(E, args, kwargs, st, node):
    from pyvc.values import ListV as _L, ObjV as _O
    s = st.copy()
    s.trace = _L(s.trace.items + (("decoded",) + tuple(a for a in args if not hasattr(a, "node")) + tuple(sorted(kwargs.items())),))
    return [(s, _O("SCPPacket", {"ident": 51}))]


@contract("rig/machine_control/scp_connection.py::SCPConnection.send_scp")
class SendScpIsABurstOfOne:
    """send_scp is a burst of exactly ONE command with window 1 and the caller's buffer size: the command carries exactly the
    destination, command, arguments, data and extra timeout given; what comes back is that command's reply decoded with the
    number of arguments the caller expects"""
    properties = ("C06",)
    params = dict(self=TRec("SCPConnection"), buffer_size=TInt(1, 65535), x=TInt(0, 255), y=TInt(0, 255), p=TInt(0, 31), cmd=TInt(0, 255),
                  arg1=TInt(0, 2 ** 32 - 1), arg2=TInt(0, 2 ** 32 - 1), arg3=TInt(0, 2 ** 32 - 1), data=TRec("Bytes", ident=TInt(0, 9)),
                  expected_args=TInt(0, 3), timeout=TReal(), g_raw=TRec("Bytes", ident=TInt(10, 19)))
    externals = {"SCPConnection.send_scp_burst": _burst_rec, "def:from_bytestring": _parse_rec}
    assumptions = ["send_scp_burst (bounded layer + its step contracts) is recorded and calls the one callback once with the reply (ghost g_raw); "
                   "SCPPacket.from_bytestring (C15) is recorded"]

    def native(x):
        raise __import__("pyvc.replay", fromlist=["OutsideHarness"]).OutsideHarness()

    def ensures_one_command_as_given_and_its_reply_decoded_as_expected(buffer_size, x, y, p, cmd, arg1, arg2, arg3, data, expected_args, timeout,
                                                                       g_raw, result, _trace):
        return (len(_trace) == 2 and _trace[0][:4] == ("burst", buffer_size, 1, 1)
                and _trace[0][4:8] == (x, y, p, cmd) and _trace[0][8:11] == (arg1, arg2, arg3)
                and _trace[0][11].ident == data.ident and _trace[0][12] == timeout
                and _trace[1][0] == "decoded" and _trace[1][1].ident == g_raw.ident and _trace[1][2] == ("n_args", expected_args)
                and result.ident == 51)
