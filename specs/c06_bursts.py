"""C06 -- the one piece of the SCP burst protocol within reach of contracts: the sequence-number
generator (rig/machine_control/scp_connection.py::seqs).  The protocol itself (sockets, select, a
clock, callbacks, histories of lost and late datagrams) is decided by bounded/c06_bursts.py."""
from pyvc.spec import contract
from pyvc.values import TInt, TConst


@contract("rig/machine_control/scp_connection.py::seqs", variant="16bit")
class Seqs16:
    """the n-th sequence number (n = 0, 1, ...) is n mod 2**16: always a 16-bit value (it is packed
    with struct format H), consecutive numbers differ, and a number recurs only after 2**16 others"""
    properties = ("C06",)
    params = dict()
    options = {"opaque_yields": True}
    ghost_vars = {"g_n": TInt(0, None)}
    loop_headers = {0: "while True:"}
    ghost_updates = {"yield i": ["gupd_count"]}
    ghost_asserts = {"yield i": ["ghost_the_nth_number_is_n_modulo_the_sequence_space"]}

    def native():
        from rig.machine_control.scp_connection import seqs
        import itertools
        return {"__native__": True, "result": None, "first": list(itertools.islice(seqs(), 65540))}

    def native_check(inputs, out):
        return [] if out["first"] == [n % 65536 for n in range(65540)] else ["ghost_the_nth_number_is_n_modulo_the_sequence_space"]

    def gupd_count(g_n):
        return {"g_n": g_n + 1}

    def inv_0_counter(i, g_n):
        return g_n >= 0 and i == g_n % 65536

    def ghost_the_nth_number_is_n_modulo_the_sequence_space(i, g_n):
        # (evaluated after the ghost update: g_n already counts this number)
        return 0 <= i <= 0xffff and i == (g_n - 1) % 65536

    def ensures_never_ends(g_n):
        return False        # unreachable: the generator is infinite


@contract("rig/machine_control/scp_connection.py::seqs", variant="3bit")
class Seqs3:
    properties = ("C06",)
    params = dict(mask=TConst(7))
    options = {"opaque_yields": True}
    ghost_vars = {"g_n": TInt(0, None)}
    loop_headers = {0: "while True:"}
    ghost_updates = {"yield i": ["gupd_count"]}
    ghost_asserts = {"yield i": ["ghost_the_nth_number_is_n_modulo_the_sequence_space"]}

    def native(mask):
        from rig.machine_control.scp_connection import seqs
        import itertools
        return {"__native__": True, "result": None, "first": list(itertools.islice(seqs(7), 40))}

    def native_check(inputs, out):
        return [] if out["first"] == [n % 8 for n in range(40)] else ["ghost_the_nth_number_is_n_modulo_the_sequence_space"]

    def gupd_count(g_n):
        return {"g_n": g_n + 1}

    def inv_0_counter(i, g_n):
        return g_n >= 0 and i == g_n % 8

    def ghost_the_nth_number_is_n_modulo_the_sequence_space(i, g_n):
        return 0 <= i <= 7 and i == (g_n - 1) % 8

    def ensures_never_ends(g_n):
        return False
