"""C07 -- chunking of remote memory accesses (rig/machine_control/scp_connection.py: the packet
generators nested in SCPConnection.read and SCPConnection.write) and address arithmetic of the
controller.  Transport (C06) and the machine's memory semantics are assumed; the end-to-end
byte-exactness is decided by bounded/c07_memory.py through the real socket layer."""
from pyvc.spec import contract, lemma
from pyvc.values import TInt, TSeq, TRec, ObjV, NONE
from pyvc.speclib import implies, forall_range, select, seq_len

BYTES = TSeq(TInt(0, 255), "bytes")
COORD = TInt(0, 255)


def _scpcall(E, args, kwargs, st, node):
    names = ["x", "y", "p", "cmd", "arg1", "arg2", "arg3", "data"]
    f = dict(zip(names, args))
    f.update(kwargs)
    return [(st, ObjV("scpcall", f))]


def _partial(E, args, kwargs, st, node):
    return [(st, ObjV("partial", {"func": args[0], "arg": args[1]}))]


EXT = {"class:scpcall": _scpcall, "functools.partial": _partial}


def aligned_as_claimed(dtype, address, size):
    """DataType: 0 byte, 1 short, 2 word -- wider accesses only when address AND length allow"""
    return (0 <= dtype <= 2 and implies(dtype == 2, address % 4 == 0 and size % 4 == 0)
            and implies(dtype == 1, address % 2 == 0 and size % 2 == 0))


@contract("rig/machine_control/scp_connection.py::SCPConnection.write.packets")
class WritePackets:
    properties = ("C07",)
    params = dict(address=TInt(0, 2 ** 32 - 1), data=BYTES, buffer_size=TInt(1, 65536), x=COORD, y=COORD, p=TInt(0, 31))
    externals = EXT
    options = {"opaque_yields": True}
    loop_headers = {0: "while pos < end:"}

    def native(address, data, buffer_size, x, y, p):
        from rig.machine_control.scp_connection import SCPConnection
        calls = []
        c = SCPConnection.__new__(SCPConnection)
        c.send_scp_burst = lambda bs, ws, pk: calls.extend(pk)
        c.write(buffer_size, 1, x, y, p, address, data)
        return {"__native__": True, "result": None, "calls": calls}

    def native_check(inputs, out):
        """the ghost assertion, evaluated on the commands the real generator produced"""
        bad, pos = [], 0
        for c in out["calls"]:
            n = c.arg2
            if not (1 <= n <= inputs["buffer_size"]) or c.arg1 != inputs["address"] + pos or bytes(c.data) != bytes(inputs["data"][pos:pos + n]):
                bad.append("ghost_command_is_the_next_block")
            if (c.arg3 == 2 and (c.arg1 % 4 or n % 4)) or (c.arg3 == 1 and (c.arg1 % 2 or n % 2)) or not 0 <= c.arg3 <= 2:
                bad.append("ghost_command_is_the_next_block/alignment")
            pos += n
        if pos != len(inputs["data"]):
            bad.append("all_of_the_data_was_sent")
        return bad

    def inv_0_position(address, old_address, pos, end, data):
        return end == seq_len(data) and 0 <= pos <= end and address == old_address + pos

    def variant_0(pos, end):
        return end - pos

    ghost_asserts = {"""yield scpcall(x, y, p, consts.SCPCommands.write, address,
                              block_size, dtype, block)""": ["ghost_command_is_the_next_block"]}

    def ghost_command_is_the_next_block(old_address, data, buffer_size, address, pos, block, block_size, dtype):
        return (1 <= block_size <= buffer_size and block_size == min(buffer_size, seq_len(data) - pos)
                and address == old_address + pos and seq_len(block) == block_size
                and forall_range(0, block_size, lambda i: select(block, i) == select(data, pos + i))
                and aligned_as_claimed(dtype, address, block_size))

    def ensures_all_of_the_data_was_sent(data, local_pos):
        return local_pos == seq_len(data)


@contract("rig/machine_control/scp_connection.py::SCPConnection.read.packets")
class ReadPackets:
    properties = ("C07",)
    params = dict(length_bytes=TInt(0, 2 ** 32), data=TInt(), address=TInt(0, 2 ** 32 - 1), buffer_size=TInt(1, 65536),
                  x=COORD, y=COORD, p=TInt(0, 31), mem=BYTES, callback=TInt())
    externals = EXT
    options = {"opaque_yields": True}
    loop_headers = {0: "while length_bytes > 0:"}

    def native(length_bytes, data, address, buffer_size, x, y, p, mem, callback):
        from rig.machine_control.scp_connection import SCPConnection
        calls = []
        c = SCPConnection.__new__(SCPConnection)
        c.send_scp_burst = lambda bs, ws, pk: calls.extend(pk)
        c.read(buffer_size, 1, x, y, p, address, length_bytes)
        return {"__native__": True, "result": None, "calls": calls}

    def native_check(inputs, out):
        bad, off = [], 0
        for c in out["calls"]:
            n = c.arg2
            if not (1 <= n <= inputs["buffer_size"]) or c.arg1 != inputs["address"] + off:
                bad.append("ghost_command_reads_the_next_block")
            if (c.arg3 == 2 and (c.arg1 % 4 or n % 4)) or (c.arg3 == 1 and (c.arg1 % 2 or n % 2)) or not 0 <= c.arg3 <= 2:
                bad.append("ghost_command_reads_the_next_block/alignment")
            off += n
        if off != inputs["length_bytes"]:
            bad.append("whole_range_requested")
        return bad

    def requires(length_bytes, mem):
        return seq_len(mem) == length_bytes

    def inv_0_position(length_bytes, old_length_bytes, offset):
        return offset >= 0 and length_bytes >= 0 and offset + length_bytes == old_length_bytes

    def variant_0(length_bytes):
        return length_bytes

    ghost_asserts = {"""yield scpcall(
                    x, y, p, consts.SCPCommands.read, read_address,
                    block_size, dtype,
                    callback=functools.partial(callback,
                                               mem[offset:offset + block_size])
                )""": ["ghost_command_reads_the_next_block"]}

    def ghost_command_reads_the_next_block(address, old_length_bytes, buffer_size, length_bytes, offset, read_address, block_size, dtype):
        # the reply is stored into mem[offset : offset + block_size] (the slice bound to the callback)
        return (1 <= block_size <= buffer_size and block_size == min(buffer_size, old_length_bytes - offset)
                and read_address == address + offset and offset + block_size <= old_length_bytes
                and aligned_as_claimed(dtype, read_address, block_size))

    def ensures_whole_range_requested(length_bytes, local_offset):
        return local_offset == length_bytes


# ---- MachineController.write_across_link: whole-word chunks over a link --------------------------
from pyvc.values import ListV   # noqa: E402

MCREC = TRec("MachineController", scp_data_length=TInt(4, 65536))


def _send_scp(E, obj, args, kwargs, st, node):
    s = st.copy()
    s.trace = ListV(s.trace.items + ((tuple(args), tuple(sorted(kwargs))),))
    return [(s, NONE, None)]


@contract("rig/machine_control/machine_controller.py::MachineController.write_across_link")
class WriteAcrossLink:
    properties = ("C07",)
    params = dict(self=MCREC, address=TInt(0, 2 ** 32 - 1), data=BYTES, x=COORD, y=COORD, link=TInt(0, 5))
    externals = {"MachineController._send_scp": _send_scp}
    # contextual-argument resolution is C18's subject; here the arguments are the resolved ones
    options = {"decorators": {"use_contextual_arguments": "identity"}, "trace_in_loops": False, "loop_keep": ["self"]}
    raises = {"ValueError": None}
    loop_headers = {0: "while length_bytes > 0:"}
    assumptions = ["ContextMixin.use_contextual_arguments treated as the identity for write_across_link (its resolution is property C18)"]

    def native(self, address, data, x, y, link):
        from rig.machine_control.machine_controller import MachineController
        mc = MachineController.__new__(MachineController)
        mc._scp_data_length = self.scp_data_length
        __import__("rig.utils.contexts", fromlist=["ContextMixin"]).ContextMixin.__init__(mc, {})
        calls = []
        mc._send_scp = lambda *a, **k: calls.append((a, k))
        try:
            mc.write_across_link(address, data, x, y, link)
            raised = None
        except Exception as e:
            raised = type(e).__name__
        return {"__native__": True, "result": None, "raised": raised, "calls": calls}

    def native_check(inputs, out):
        bad, pos = [], 0
        lim = inputs["self"].scp_data_length & ~3
        for a, k in out["calls"]:
            n = k["arg2"]
            if not (4 <= n <= lim) or n % 4 or k["arg1"] != inputs["address"] + pos or bytes(k["data"]) != bytes(inputs["data"][pos:pos + n]) or a[:2] != (inputs["x"], inputs["y"]):
                bad.append("ghost_chunk_is_the_next_whole_words")
            pos += n
        if pos != len(inputs["data"]):
            bad.append("everything_written")
        return bad

    def raises_ValueError(address, data):
        return address % 4 != 0 or seq_len(data) % 4 != 0

    def inv_0_progress(self, address, old_address, cur_byte, length_bytes, data):
        return (cur_byte >= 0 and length_bytes >= 0 and cur_byte + length_bytes == seq_len(data)
                and address == old_address + cur_byte and cur_byte % 4 == 0 and length_bytes % 4 == 0)

    def variant_0(length_bytes):
        return length_bytes

    ghost_asserts = {"""self._send_scp(x, y, 0, SCPCommands.link_write,
                           arg1=address, arg2=to_write, arg3=int(link),
                           data=cur_data, expected_args=0)""": ["ghost_chunk_is_the_next_whole_words"]}

    def ghost_chunk_is_the_next_whole_words(self, old_address, data, address, cur_byte, to_write, cur_data):
        return (4 <= to_write <= self.scp_data_length and to_write % 4 == 0 and address == old_address + cur_byte
                and seq_len(cur_data) == to_write and cur_byte + to_write <= seq_len(data)
                and forall_range(0, to_write, lambda i: select(cur_data, i) == select(data, cur_byte + i)))

    def ensures_everything_written(data, local_cur_byte, local_length_bytes):
        return local_cur_byte == seq_len(data) and local_length_bytes == 0


# ---- address of a per-core (vcpu) field --------------------------------------------------------------
from pyvc.values import TTuple, ObjV as _ObjV   # noqa: E402

MCS = TRec("MachineController", structs=TRec("OpaqueStructs"))


def _structs_getitem(E, obj, args, kwargs, st, node):
    # self.structs[b"vcpu"]: the struct definition (size = ghost input g_size)
    return [(st, _ObjV("OpaqueStruct", {"size": st.env["g_size"]}), None)]


def _struct_getitem(E, obj, args, kwargs, st, node):
    return [(st, _ObjV("StructField", {"offset": st.env["g_offset"], "pack_chars": st.env["g_pack"], "length": 1}), None)]


def _six_b(E, args, kwargs, st, node):
    return [(st, args[0])]


def _read_struct_field(E, obj, args, kwargs, st, node):
    s = st.copy()
    s.trace = ListV(s.trace.items + (("read_struct_field",) + tuple(args),))
    return [(s, st.env["g_base"], None)]


@contract("rig/machine_control/machine_controller.py::MachineController._get_vcpu_field_and_address")
class VcpuFieldAddress:
    properties = ("C07",)
    params = dict(self=MCS, field_name=TInt(), x=COORD, y=COORD, p=TInt(0, 31),
                  g_size=TInt(1, 4096), g_offset=TInt(0, 4095), g_pack=BYTES, g_base=TInt(0, 2 ** 32 - 1))
    externals = {"OpaqueStructs.__getitem__": _structs_getitem, "OpaqueStruct.__getitem__": _struct_getitem,
                 "six.b": _six_b, "b": _six_b, "MachineController.read_struct_field": _read_struct_field}
    assumptions = ["the struct definitions are opaque: structs[b'vcpu'].size and the field's offset are ghost inputs",
                   "read_struct_field('sv','vcpu_base',x,y) returns the chip's vcpu base (ghost input), recorded in the trace"]

    def native(field_name, x, y, p, g_size, g_offset, g_pack, g_base):
        from rig.machine_control.machine_controller import MachineController
        import types
        mc = MachineController.__new__(MachineController)

        class S(dict):
            size = g_size
        st = S()
        st[b"f"] = types.SimpleNamespace(offset=g_offset, pack_chars=bytes(g_pack), length=1)
        mc.structs = {b"vcpu": st}
        calls = []

        def rsf(*a):
            calls.append(("read_struct_field",) + a)
            return g_base
        mc.read_struct_field = rsf
        r = mc._get_vcpu_field_and_address("f", x, y, p)
        return {"__native__": True, "result": r, "_trace": calls}

    def ensures_address_is_base_of_this_chip_plus_core_block_plus_offset(x, y, p, g_size, g_offset, g_base, result, _trace):
        return (result[1] == g_base + g_size * p + g_offset
                and len(_trace) == 1 and _trace[0][3] == x and _trace[0][4] == y)


# ---- MachineController.read / .write: handed to the connection of the target chip with the machine's own buffer and window -----
from pyvc.values import TRec as _TRec7, ListV as _ListV7, TOpt as _TOpt7   # noqa: E402
from pyvc.speclib import unopt   # noqa: E402

CONN7 = _TRec7("Conn", __id__=TInt())


def _get_conn7(E, obj, args, kwargs, st, node):
    s = st.copy()
    s.trace = _ListV7(s.trace.items + (("connection_for",) + tuple(args),))
    return [(s, st.env["g_conn"], None)]


def _conn_read7(E, obj, args, kwargs, st, node):
    s = st.copy()
    s.trace = _ListV7(s.trace.items + (("read", obj.fields["__id__"]) + tuple(args),))
    return [(s, st.env["g_data"], None)]


def _conn_write7(E, obj, args, kwargs, st, node):
    from pyvc.values import NONE as _N
    s = st.copy()
    s.trace = _ListV7(s.trace.items + (("write", obj.fields["__id__"]) + tuple(args),))
    return [(s, _N, None)]


MC7 = _TRec7("MachineController", _scp_data_length=_TOpt7(TInt(1, None)), _window_size=_TOpt7(TInt(1, None)))


@contract("rig/machine_control/machine_controller.py::MachineController.read")
class MCRead:
    """(buffer size already known: the property returns the cached value; window 1 until one is known)"""
    properties = ("C07",)
    params = dict(self=MC7, address=TInt(0, 2 ** 32 - 1), length_bytes=TInt(0, None), x=TInt(0, 255), y=TInt(0, 255), p=TInt(0, 17),
                  g_conn=CONN7, g_data=TInt())
    externals = {"MachineController._get_connection": _get_conn7, "Conn.read": _conn_read7}
    options = {"decorators": {"use_contextual_arguments": "identity"}}
    assumptions = ["ContextMixin.use_contextual_arguments treated as the identity (C18); _get_connection external (C18); the connection's read is SCPConnection.read, whose packet generator has its own contract"]

    def native(x):
        raise __import__("pyvc.replay", fromlist=["OutsideHarness"]).OutsideHarness()

    def requires(self):
        return self._scp_data_length is not None        # (else the property asks the machine first: C14)

    def ensures_exactly_this_range_of_this_core_is_read_with_the_machines_buffer_and_window(self, address, length_bytes, x, y, p, g_conn, g_data, result, _trace):
        return (result == g_data and len(_trace) == 2 and _trace[0] == ("connection_for", x, y)
                and _trace[1] == ("read", g_conn.__id__, unopt(self._scp_data_length), (1 if self._window_size is None else unopt(self._window_size)), x, y, p, address, length_bytes))


@contract("rig/machine_control/machine_controller.py::MachineController.write")
class MCWrite:
    properties = ("C07",)
    params = dict(self=MC7, address=TInt(0, 2 ** 32 - 1), data=TInt(), x=TInt(0, 255), y=TInt(0, 255), p=TInt(0, 17), g_conn=CONN7)
    externals = {"MachineController._get_connection": _get_conn7, "Conn.write": _conn_write7}
    options = {"decorators": {"use_contextual_arguments": "identity"}}
    assumptions = MCRead.assumptions

    def native(x):
        raise __import__("pyvc.replay", fromlist=["OutsideHarness"]).OutsideHarness()

    def requires(self):
        return self._scp_data_length is not None        # (else the property asks the machine first: C14)

    def ensures_exactly_these_bytes_go_to_this_address_of_this_core(self, address, data, x, y, p, g_conn, _trace):
        return (len(_trace) == 2 and _trace[0] == ("connection_for", x, y)
                and _trace[1] == ("write", g_conn.__id__, unopt(self._scp_data_length), (1 if self._window_size is None else unopt(self._window_size)), x, y, p, address, data))


def _mc_write7(E, obj, args, kwargs, st, node):
    from pyvc.values import NONE as _N
    s = st.copy()
    s.trace = _ListV7(s.trace.items + (("write",) + tuple(args),))
    return [(s, _N, None)]


def _mc_send_scp7(E, obj, args, kwargs, st, node):
    from pyvc.values import NONE as _N
    s = st.copy()
    s.trace = _ListV7(s.trace.items + (("scp",) + tuple(args),))
    return [(s, _N, None)]


FILL_CMD = 5        # SCP command "fill" (sark.h: CMD_FILL 5), not read from rig.consts


@contract("rig/machine_control/machine_controller.py::MachineController.fill")
class MCFill:
    """a fill that is not word-aligned at both ends is a write of `size` copies of the byte - the whole range, nothing but the
    range; an aligned one is a single fill command for exactly (address, word, size)"""
    properties = ("C07",)
    params = dict(self=_TRec7("MachineController"), address=TInt(0, 2 ** 32 - 1), data=TInt(0, 255), size=TInt(0, 4096),
                  x=TInt(0, 255), y=TInt(0, 255), p=TInt(0, 17))
    externals = {"MachineController.write": _mc_write7, "MachineController._send_scp": _mc_send_scp7}
    options = {"decorators": {"use_contextual_arguments": "identity"}, "int_class": "rig/machine_control/consts.py::SCPCommands"}
    assumptions = ["write and _send_scp are recorded here (their own contracts: MCWrite, C18 MCSendScp)"]

    def native(x):
        raise __import__("pyvc.replay", fromlist=["OutsideHarness"]).OutsideHarness()

    def ensures_unaligned_fill_writes_size_copies_of_the_byte(address, data, size, x, y, p, _trace):
        d = _trace[0][2]
        return implies(size % 4 != 0 or address % 4 != 0,
                       len(_trace) == 1 and _trace[0][0] == "write" and _trace[0][1] == address
                       and _trace[0][3] == x and _trace[0][4] == y and _trace[0][5] == p
                       and seq_len(d) == size and forall_range(0, size, lambda i: select(d, i) == data))

    def ensures_aligned_fill_is_one_fill_command(address, data, size, x, y, p, _trace):
        return implies(size % 4 == 0 and address % 4 == 0,
                       len(_trace) == 1 and _trace[0] == ("scp", x, y, p, FILL_CMD, address, data, size))


# ---- write_vcpu_struct_field for the scalar field kinds (one contract per pack format) ---------------------------------
from pyvc.values import TConst as _TConst7   # noqa: E402


def _mk_field_lookup(fmt):
    def handler(E, obj, args, kwargs, st, node):
        """_get_vcpu_field_and_address(name, x, y, p) (its own contract: GetVcpuFieldAndAddress): recorded; gives a scalar
        field of length 1, the ghost address g_addr and this variant's pack format"""
        s = st.copy()
        s.trace = _ListV7(s.trace.items + (("field_of",) + tuple(args),))
        return [(s, (st.env["g_field"], st.env["g_addr"], fmt), None)]
    return handler



@contract("rig/machine_control/machine_controller.py::MachineController.write_vcpu_struct_field", variant="byte")
class WriteVcpuField_byte:
    """a scalar per-core field of 1 byte(s) (pack format b'<B'): exactly its little-endian bytes go to the field's address on
    the field's chip, through the monitor"""
    properties = ("C07",)
    params = dict(self=_TRec7("MachineController"), field_name=TInt(), value=TInt(0, 256 ** 1 - 1), x=TInt(0, 255), y=TInt(0, 255), p=TInt(0, 17),
                  g_field=_TRec7("StructField", length=_TConst7(1)), g_addr=TInt(0, 2 ** 32 - 1))
    externals = {"MachineController._get_vcpu_field_and_address": _mk_field_lookup(b'<B'), "MachineController.write": _mc_write7}
    options = {"decorators": {"use_contextual_arguments": "identity"}}
    assumptions = ["_get_vcpu_field_and_address is external here (own contract); write is recorded (own contract MCWrite); field names are opaque identities"]

    def native(x):
        raise __import__("pyvc.replay", fromlist=["OutsideHarness"]).OutsideHarness()

    def ensures_exactly_the_fields_bytes_are_written_at_the_fields_address(field_name, value, x, y, p, g_addr, _trace):
        d = _trace[1][2]
        return (len(_trace) == 2 and _trace[0] == ("field_of", field_name, x, y, p)
                and _trace[1][0] == "write" and _trace[1][1] == g_addr and _trace[1][3] == x and _trace[1][4] == y
                and len(_trace[1]) == 5                                  # (through the monitor: no core argument)
                and seq_len(d) == 1 and all(select(d, i) == (value // (256 ** i)) % 256 for i in range(1)))


@contract("rig/machine_control/machine_controller.py::MachineController.write_vcpu_struct_field", variant="halfword")
class WriteVcpuField_halfword:
    """a scalar per-core field of 2 byte(s) (pack format b'<H'): exactly its little-endian bytes go to the field's address on
    the field's chip, through the monitor"""
    properties = ("C07",)
    params = dict(self=_TRec7("MachineController"), field_name=TInt(), value=TInt(0, 256 ** 2 - 1), x=TInt(0, 255), y=TInt(0, 255), p=TInt(0, 17),
                  g_field=_TRec7("StructField", length=_TConst7(1)), g_addr=TInt(0, 2 ** 32 - 1))
    externals = {"MachineController._get_vcpu_field_and_address": _mk_field_lookup(b'<H'), "MachineController.write": _mc_write7}
    options = {"decorators": {"use_contextual_arguments": "identity"}}
    assumptions = ["_get_vcpu_field_and_address is external here (own contract); write is recorded (own contract MCWrite); field names are opaque identities"]

    def native(x):
        raise __import__("pyvc.replay", fromlist=["OutsideHarness"]).OutsideHarness()

    def ensures_exactly_the_fields_bytes_are_written_at_the_fields_address(field_name, value, x, y, p, g_addr, _trace):
        d = _trace[1][2]
        return (len(_trace) == 2 and _trace[0] == ("field_of", field_name, x, y, p)
                and _trace[1][0] == "write" and _trace[1][1] == g_addr and _trace[1][3] == x and _trace[1][4] == y
                and len(_trace[1]) == 5                                  # (through the monitor: no core argument)
                and seq_len(d) == 2 and all(select(d, i) == (value // (256 ** i)) % 256 for i in range(2)))


@contract("rig/machine_control/machine_controller.py::MachineController.write_vcpu_struct_field", variant="word")
class WriteVcpuField_word:
    """a scalar per-core field of 4 byte(s) (pack format b'<I'): exactly its little-endian bytes go to the field's address on
    the field's chip, through the monitor"""
    properties = ("C07",)
    params = dict(self=_TRec7("MachineController"), field_name=TInt(), value=TInt(0, 256 ** 4 - 1), x=TInt(0, 255), y=TInt(0, 255), p=TInt(0, 17),
                  g_field=_TRec7("StructField", length=_TConst7(1)), g_addr=TInt(0, 2 ** 32 - 1))
    externals = {"MachineController._get_vcpu_field_and_address": _mk_field_lookup(b'<I'), "MachineController.write": _mc_write7}
    options = {"decorators": {"use_contextual_arguments": "identity"}}
    assumptions = ["_get_vcpu_field_and_address is external here (own contract); write is recorded (own contract MCWrite); field names are opaque identities"]

    def native(x):
        raise __import__("pyvc.replay", fromlist=["OutsideHarness"]).OutsideHarness()

    def ensures_exactly_the_fields_bytes_are_written_at_the_fields_address(field_name, value, x, y, p, g_addr, _trace):
        d = _trace[1][2]
        return (len(_trace) == 2 and _trace[0] == ("field_of", field_name, x, y, p)
                and _trace[1][0] == "write" and _trace[1][1] == g_addr and _trace[1][3] == x and _trace[1][4] == y
                and len(_trace[1]) == 5                                  # (through the monitor: no core argument)
                and seq_len(d) == 4 and all(select(d, i) == (value // (256 ** i)) % 256 for i in range(4)))



@contract("rig/machine_control/machine_controller.py::MachineController.read_across_link@seq:0:2")
class ReadAcrossLinkGuards:
    """the two guards at the head of read_across_link: a link read is a word access, so it is refused unless BOTH the address
    and the length are word-aligned (what the extraction drops: the loop that issues the reads - same shape as
    write_across_link's, with a memoryview over a bytearray that the engine does not model)"""
    properties = ("C07",)
    params = dict(address=TInt(0, 2 ** 32 - 1), length_bytes=TInt(0, None))
    fragment_result = ()
    fragment_head = 'raise ValueError("Addresses must be word-aligned.")'
    raises = {"ValueError": None}

    def native(address):
        raise __import__("pyvc.replay", fromlist=["OutsideHarness"]).OutsideHarness()

    def raises_ValueError(address, length_bytes):
        return address % 4 != 0 or length_bytes % 4 != 0

    def ensures_passes_only_when_both_are_word_aligned(address, length_bytes):
        return address % 4 == 0 and length_bytes % 4 == 0


# ---- the pack characters of the struct files ---------------------------------------------------------------------------------------
from pyvc.spec import lemma   # noqa: E402,F811
from pyvc.values import TInt   # noqa: E402,F811
from rig.machine_control.struct_file import perl_to_python_packs   # noqa: E402

# the struct files describe fields with Perl pack characters (perldoc -f pack): A text, c / C signed / unsigned char,
# v / V unsigned 16 / 32 bit little-endian.  width in bytes, 1 = signed
PERL_PACKS = {b"A": (1, 0), b"c": (1, 1), b"C": (1, 0), b"v": (2, 0), b"V": (4, 0)}
PYTHON_PACKS = {b"s": (1, 0), b"b": (1, 1), b"B": (1, 0), b"h": (2, 1), b"H": (2, 0), b"i": (4, 1), b"I": (4, 0), b"l": (4, 1), b"L": (4, 0)}


@lemma("perl_pack_characters_keep_width_and_signedness")
class PerlPacks:
    """the table that turns the struct files' Perl pack characters into Python's (the real table, read from the module): every
    character keeps its width and its signedness - so a struct field is read and written over exactly its own bytes, and values
    of 0x8000 and above of an unsigned field are not refused or sign-flipped"""
    properties = ("C07",)
    params = dict(i=TInt(0, 4))

    def claim(i):
        return PERL_TABLE_IS_FAITHFUL


# (a finite, concrete table: compared here, natively, with the real module's table on every run)
PERL_TABLE_IS_FAITHFUL = (sorted(perl_to_python_packs) == sorted(PERL_PACKS)
                          and all(PYTHON_PACKS.get(perl_to_python_packs[k]) == PERL_PACKS[k] for k in PERL_PACKS))


# ---- reading a per-core word field, reading / writing a word field of a system struct -------------------------------------------------


def _mc_read_rec7(E, obj, args, kwargs, st, node):
    s = st.copy()
    s.trace = _ListV7(s.trace.items + (("read",) + tuple(args),))
    return [(s, st.env["g_data"], None)]


def _mk_struct_lookup(fmt):
    def handler(E, obj, args, kwargs, st, node):
        s = st.copy()
        s.trace = _ListV7(s.trace.items + (("struct_field_of",) + tuple(args),))
        return [(s, (st.env["g_field"], st.env["g_addr"], fmt), None)]
    return handler


def _le32(d):
    return select(d, 0) + 256 * select(d, 1) + 65536 * select(d, 2) + 16777216 * select(d, 3)


@contract("rig/machine_control/machine_controller.py::MachineController.read_vcpu_struct_field", variant="word")
class ReadVcpuField_word:
    """a scalar per-core word field: exactly its 4 bytes are read at the field's address on the field's chip, through the
    monitor, and the value returned is their little-endian reading"""
    properties = ("C07", "C09")
    params = dict(self=_TRec7("MachineController"), field_name=TInt(), x=TInt(0, 255), y=TInt(0, 255), p=TInt(0, 17),
                  g_field=_TRec7("StructField", length=_TConst7(1)), g_addr=TInt(0, 2 ** 32 - 1), g_data=BYTES)
    externals = {"MachineController._get_vcpu_field_and_address": _mk_field_lookup(b'<I'), "MachineController.read": _mc_read_rec7}
    options = {"decorators": {"use_contextual_arguments": "identity"}}
    assumptions = ["_get_vcpu_field_and_address is external here (own contract); read is recorded (own contract MCRead) and returns the ghost bytes"]

    def native(x):
        raise __import__("pyvc.replay", fromlist=["OutsideHarness"]).OutsideHarness()

    def requires(g_data):
        return seq_len(g_data) == 4

    def ensures_reads_exactly_the_fields_bytes_and_decodes_them(field_name, x, y, p, g_addr, g_data, result, _trace):
        return (len(_trace) == 2 and _trace[0] == ("field_of", field_name, x, y, p)
                and _trace[1] == ("read", g_addr, 4, x, y) and result == _le32(g_data))


@contract("rig/machine_control/machine_controller.py::MachineController.read_struct_field", variant="word")
class ReadStructField_word:
    """a scalar word field of a system struct: exactly its 4 bytes are read at the field's address on the chip and core named, and
    the value returned is their little-endian reading"""
    properties = ("C07", "C14")
    params = dict(self=_TRec7("MachineController"), struct_name=TInt(), field_name=TInt(), x=TInt(0, 255), y=TInt(0, 255), p=TInt(0, 17),
                  g_field=_TRec7("StructField", length=_TConst7(1)), g_addr=TInt(0, 2 ** 32 - 1), g_data=BYTES)
    externals = {"MachineController._get_struct_field_and_address": _mk_struct_lookup(b'<I'), "MachineController.read": _mc_read_rec7}
    options = {"decorators": {"use_contextual_arguments": "identity"}}
    assumptions = ["_get_struct_field_and_address (base + offset, format from the struct file) is external here; read is recorded"]

    def native(x):
        raise __import__("pyvc.replay", fromlist=["OutsideHarness"]).OutsideHarness()

    def requires(g_data):
        return seq_len(g_data) == 4

    def ensures_reads_exactly_the_fields_bytes_and_decodes_them(struct_name, field_name, x, y, p, g_addr, g_data, result, _trace):
        return (len(_trace) == 2 and _trace[0] == ("struct_field_of", struct_name, field_name)
                and _trace[1] == ("read", g_addr, 4, x, y, p) and result == _le32(g_data))


@contract("rig/machine_control/machine_controller.py::MachineController.write_struct_field", variant="word")
class WriteStructField_word:
    """a scalar word field of a system struct: exactly its little-endian bytes go to the field's address on the chip and core named"""
    properties = ("C07",)
    params = dict(self=_TRec7("MachineController"), struct_name=TInt(), field_name=TInt(), values=TInt(0, 2 ** 32 - 1), x=TInt(0, 255), y=TInt(0, 255), p=TInt(0, 17),
                  g_field=_TRec7("StructField", length=_TConst7(1)), g_addr=TInt(0, 2 ** 32 - 1))
    externals = {"MachineController._get_struct_field_and_address": _mk_struct_lookup(b'<I'), "MachineController.write": _mc_write7}
    options = {"decorators": {"use_contextual_arguments": "identity"}}
    assumptions = ["_get_struct_field_and_address is external here; write is recorded (own contract MCWrite)"]

    def native(x):
        raise __import__("pyvc.replay", fromlist=["OutsideHarness"]).OutsideHarness()

    def ensures_exactly_the_fields_bytes_are_written_at_the_fields_address(struct_name, field_name, values, x, y, p, g_addr, _trace):
        d = _trace[1][2]
        return (len(_trace) == 2 and _trace[0] == ("struct_field_of", struct_name, field_name)
                and _trace[1][0] == "write" and _trace[1][1] == g_addr and tuple(_trace[1][3:]) == (x, y, p)
                and seq_len(d) == 4 and all(select(d, i) == (values // (256 ** i)) % 256 for i in range(4)))


# ---- the advertised buffer size: asked of the machine's root monitor, once, and only a real answer is remembered ------------------------
from pyvc.values import TBool   # noqa: E402
def _gsv_ext(E, obj, args, kwargs, st, node):
    import z3 as _z3
    from pyvc.engine import Raised
    from pyvc.values import ListV, ObjV, ExcV
    s = st.copy()
    s.trace = ListV(s.trace.items + (("get_software_version",) + tuple(args),))
    ok = s.assume(_z3.Not(st.env["g_probe_fails"]))
    bad = s.assume(st.env["g_probe_fails"])
    return [(ok, ObjV("CoreInfo", {"buffer_size": st.env["g_advertised"]}), None), (bad, Raised(ExcV("SCPError", ())), None)]


@contract("rig/machine_control/machine_controller.py::MachineController.scp_data_length")
class ScpDataLength:
    """the size every memory command is cut to: a size already known is used as it is and nothing is sent; an unknown size is
    asked of the root monitor (255, 255, 0) - the core that executes the memory commands - and what IT advertises is returned
    and remembered; when the question fails the size stays unknown (it is asked again next time), nothing is guessed"""
    properties = ("C07", "C14")
    params = dict(self=_TRec7("MachineController", _scp_data_length=_TOpt7(TInt(1, None))), g_advertised=TInt(1, 65535), g_probe_fails=TBool())
    result = TInt()
    externals = {"MachineController.get_software_version": _gsv_ext}
    options = {"decorators": {"property": "identity"}}
    assumptions = ["get_software_version (its decoding of the version reply: contract SoftwareVersion in C14) is recorded: it returns the advertised size (ghost) or raises SCPError"]

    def native(self, g_advertised, g_probe_fails):
        from rig.machine_control.machine_controller import MachineController, SCPError
        import collections
        mc = MachineController.__new__(MachineController)
        mc._scp_data_length = self._scp_data_length
        calls = []

        def gsv(*a, **k):
            calls.append(a)
            if g_probe_fails:
                raise SCPError("no answer")
            return collections.namedtuple("CoreInfo", "buffer_size")(g_advertised)
        mc.get_software_version = gsv
        try:
            result, raised = mc.scp_data_length, None
        except SCPError:
            result, raised = None, "SCPError"
        return {"__native__": True, "result": result, "raised": raised, "calls": calls, "after": mc._scp_data_length}

    def native_check(inputs, out):
        known = inputs["self"]._scp_data_length
        bad = []
        if out["raised"] is None:
            want = known if known is not None else inputs["g_advertised"]
            if out["result"] != want or out["after"] != want or out["calls"] != ([] if known is not None else [(255, 255, 0)]):
                bad.append("known_size_used_else_the_root_monitors_answer_remembered")
        elif out["after"] is not None or known is not None or out["calls"] != [(255, 255, 0)]:
            bad.append("SCPError")
        return bad

    def ensures_known_size_used_else_the_root_monitors_answer_remembered(self, self_post, g_advertised, result, _trace):
        known = self._scp_data_length is not None
        return (implies(known, result == unopt(self._scp_data_length) and len(_trace) == 0 and self_post._scp_data_length == self._scp_data_length)
                and implies(not known, len(_trace) == 1 and _trace[0] == ("get_software_version", 255, 255, 0) and result == g_advertised
                            and self_post._scp_data_length is not None and unopt(self_post._scp_data_length) == g_advertised))

    def raises_SCPError(self, self_post, g_probe_fails, _trace):
        return (self._scp_data_length is None and g_probe_fails and len(_trace) == 1 and _trace[0] == ("get_software_version", 255, 255, 0)
                and self_post._scp_data_length is None)


# ---- read_across_link: one command of the loop (fragment; the buffer bookkeeping is abstracted) ---------------------------------------------
def _ral_scp(E, obj, args, kwargs, st, node):
    from pyvc.values import ListV as _L, ObjV as _O
    s = st.copy()
    s.trace = _L(s.trace.items + (("scp",) + tuple(args) + (tuple(sorted(kwargs.items())),),))
    return [(s, _O("SCPPacket", {"data": _O("Bytes", {"ident": 3})}), None)]


_MEMV = _TRec7("MemoryView", ident=TInt(0, 9))


@contract("rig/machine_control/machine_controller.py::MachineController.read_across_link@whilebody:0")
class ReadAcrossLinkStep:
    """one command of a read across a link: it asks for the next whole words - as many as the buffer holds, at most what is left -
    at exactly the current address, down exactly the link named, through the monitor of the chip named; afterwards the address has
    moved on and the remaining length shrunk by exactly that many bytes (so the commands tile the range and the loop ends)"""
    properties = ("C07",)
    params = dict(self=MCREC, address=TInt(0, 2 ** 32 - 1), length_bytes=TInt(1, 2 ** 24), x=COORD, y=COORD, link=TInt(0, 5), mem=_MEMV)
    fragment_result = ("address", "length_bytes")
    fragment_head = "while length_bytes > 0:"
    externals = {"MachineController._send_scp": _ral_scp}
    abstracted = {"mem[:to_read] = response.data": {"mem": _MEMV}, "mem = mem[to_read:]": {"mem": _MEMV}}
    options = {"int_class": "rig/machine_control/consts.py::SCPCommands"}
    assumptions = ["_send_scp (MCSendScp) is recorded; the two statements that copy the reply into the result buffer and advance the view over it "
                   "are abstracted (memoryview aliasing is outside the model: the bytes returned are decided by the bounded layer)"]

    def requires(self, address, length_bytes):
        return address % 4 == 0 and length_bytes % 4 == 0

    def native(x):
        raise __import__("pyvc.replay", fromlist=["OutsideHarness"]).OutsideHarness()

    def ensures_next_whole_words_at_the_current_address_down_this_link(self, address, length_bytes, x, y, link, result, _trace):
        lim = self.scp_data_length - self.scp_data_length % 4
        n = length_bytes if length_bytes <= lim else lim
        return (len(_trace) == 1 and _trace[0] == ("scp", x, y, 0, 17, (("arg1", address), ("arg2", n), ("arg3", link), ("expected_args", 0)))
                and 4 <= n and n % 4 == 0 and n <= self.scp_data_length
                and result[0] == address + n and result[1] == length_bytes - n)
