"""C08 -- the allocation kernel of rig/bitfield.py: BitField._assign_field for bit fields of up
to 64 bits (136-bit signed vectors so that every shift is exact).  The field hierarchy (_Tree,
assign_fields, tags) is decided by bounded/c08_bitfield.py."""
from pyvc.spec import contract, lemma
from pyvc.values import TInt, TBool, TBV, TOpt, TRec, StrV
from pyvc.speclib import implies, iff, forall_range, exists_range, unopt

W = 136
LEN = TBV(W, 1, 64)
POS = TBV(W, 0, 64)
BITS = TBV(W, 0, 2 ** 64 - 1)
FIELD = TRec("Field", length=TOpt(LEN), start_at=TOpt(POS), max_value=TBV(W, 1, 2 ** 64 - 1))
BF = TRec("BitField", length=LEN, fields=TRec("OpaqueTree"))


def _get_field(E, obj, args, kwargs, st, node):
    return [(st, st.env["g_field"], None)]


def _human(E, obj, args, kwargs, st, node):
    return [(st, StrV(), None)]


def window(n, b):
    return ((1 << n) - 1) << b


def free_at(assigned, n, b):
    return (assigned & window(n, b)) == 0


class _Tree(object):
    def __init__(self, f):
        self.f = f

    def get_field(self, identifier, field_values):
        return self.f

    def get_field_human_readable(self, identifier, field_values):
        return "f"


def _native(self, assigned_bits, g_field):
    import types
    from rig.bitfield import BitField
    bf = BitField(self.length)
    f = types.SimpleNamespace(length=g_field.length, start_at=g_field.start_at, max_value=g_field.max_value)
    bf.fields = _Tree(f)
    try:
        r, raised = bf._assign_field(assigned_bits, "f", {}), None
    except Exception as e:
        r, raised = None, type(e).__name__
    return {"__native__": True, "result": r, "raised": raised, "local_field": f}


@contract("rig/bitfield.py::BitField._assign_field", variant="floating")
class AssignFloating:
    """a field of known width without a position: first fit"""
    properties = ("C08",)
    bv = W
    params = dict(self=BF, assigned_bits=BITS, identifier=TInt(), field_values=TInt(), g_field=FIELD)
    externals = {"OpaqueTree.get_field": _get_field, "OpaqueTree.get_field_human_readable": _human}
    raises = {"ValueError": None}
    loop_headers = {0: "for bit in range(0, self.length - length + 1):"}

    def native(self, assigned_bits, identifier, field_values, g_field):
        return _native(self, assigned_bits, g_field)

    def requires(self, assigned_bits, g_field):
        return (g_field.length is not None and g_field.start_at is None
                and (assigned_bits >> self.length) == 0)

    def inv_0_no_earlier_position_is_free(self, assigned_bits, old_assigned_bits, start_at, length, _k):
        return (assigned_bits == old_assigned_bits and start_at == self.length
                and forall_range(0, _k, lambda b: not free_at(old_assigned_bits, length, b)))

    def raises_ValueError(self, assigned_bits, g_field):
        # only when the field fits nowhere
        n = unopt(g_field.length)
        return not exists_range(0, self.length - n + 1, lambda b: free_at(assigned_bits, n, b))

    def ensures_takes_the_least_free_position(self, assigned_bits, g_field, result, local_field):
        n = unopt(g_field.length)
        b = unopt(local_field.start_at)
        return (local_field.start_at is not None and local_field.length == g_field.length
                and 0 <= b and b + n <= self.length and free_at(assigned_bits, n, b)
                and forall_range(0, b, lambda c: not free_at(assigned_bits, n, c))
                and result == (assigned_bits | window(n, b)))


@contract("rig/bitfield.py::BitField._assign_field", variant="fixed")
class AssignFixed:
    """a field with an explicit position"""
    properties = ("C08",)
    bv = W
    params = dict(self=BF, assigned_bits=BITS, identifier=TInt(), field_values=TInt(), g_field=FIELD)
    externals = {"OpaqueTree.get_field": _get_field, "OpaqueTree.get_field_human_readable": _human}
    raises = {"ValueError": None}

    def native(self, assigned_bits, identifier, field_values, g_field):
        return _native(self, assigned_bits, g_field)

    def requires(self, assigned_bits, g_field):
        return (g_field.length is not None and g_field.start_at is not None
                and (assigned_bits >> self.length) == 0)

    def raises_ValueError(self, assigned_bits, g_field):
        n = unopt(g_field.length)
        b = unopt(g_field.start_at)
        return not free_at(assigned_bits, n, b) or b + n > self.length

    def ensures_marks_exactly_its_window(self, assigned_bits, g_field, result, local_field):
        n = unopt(g_field.length)
        b = unopt(g_field.start_at)
        return (free_at(assigned_bits, n, b) and b + n <= self.length
                and result == (assigned_bits | window(n, b))
                and local_field.start_at == g_field.start_at and local_field.length == g_field.length)


# ---- the explicit-position check of add_field: its second `if` statement, extracted mechanically --------------------------
from pyvc.values import TOpt as _TOpt, TRec as _TRec, TNone as _TNone   # noqa: E402


@contract("rig/bitfield.py::BitField.add_field@if:1")
class AddFieldFitsCheck:
    fragment_head = 'raise ValueError("Field doesn\'t fit within {}-bit bit field.".format(self.length))'   # (anchored by what the `if` guards: its condition is what is verified)
    """`if start_at is not None and (...): raise ValueError(...)`: a field given an explicit position is rejected exactly when it
    does not lie inside the bit field [0, length).  (What the extraction drops: the rest of add_field - the length check before it,
    the overlap loop, tag handling and the insertion into the field tree.)"""
    properties = ("C08",)
    params = dict(self=_TRec("BitField", length=TInt(1, None)), length=_TOpt(TInt(1, None)), start_at=_TOpt(TInt()))
    fragment_result = ()
    raises = {"ValueError": None}

    def native(self, length, start_at):
        from rig.bitfield import BitField
        b = BitField(self.length)
        try:
            b.add_field("f", length=length, start_at=start_at)
        except ValueError as e:
            return {"__native__": True, "result": (), "raised": "ValueError" if "fit within" in str(e) else None}
        return ()

    def raises_ValueError(self, length, start_at):
        n = 1 if length is None else unopt(length)
        return start_at is not None and not (0 <= unopt(start_at) and unopt(start_at) + n <= self.length)

    def ensures_an_accepted_position_lies_inside_the_bit_field(self, length, start_at):
        n = 1 if length is None else unopt(length)
        return start_at is None or (0 <= unopt(start_at) and unopt(start_at) + n <= self.length)


@contract("rig/bitfield.py::BitField.add_field@forbody:0")
class AddFieldOverlapCheck:
    fragment_head = "for other_identifier, other_field in self.fields.potential_fields(self.field_values):"
    """ONE iteration of the loop over the fields that can be present together with the new one: an explicitly positioned new
    field is rejected exactly when its bit range meets the range of an explicitly positioned other field."""
    properties = ("C08",)
    params = dict(identifier=TInt(), start_at=TInt(0, None), end_at=TInt(1, None), other_identifier=TInt(),
                  other_field=_TRec("_Field", start_at=_TOpt(TInt(0, None)), length=_TOpt(TInt(1, None))))
    fragment_result = ()
    raises = {"ValueError": None}

    def native(start_at, end_at, other_field):
        raise __import__("pyvc.replay", fromlist=["OutsideHarness"]).OutsideHarness()

    def requires(start_at, end_at):
        return start_at < end_at

    def raises_ValueError(start_at, end_at, other_field):
        n = 1 if other_field.length is None else unopt(other_field.length)
        return other_field.start_at is not None and exists_range(
            max(start_at, unopt(other_field.start_at)), min(end_at, unopt(other_field.start_at) + n),
            lambda bit: start_at <= bit < end_at and unopt(other_field.start_at) <= bit < unopt(other_field.start_at) + n)

    def ensures_accepted_only_if_the_ranges_share_no_bit(start_at, end_at, other_field):
        n = 1 if other_field.length is None else unopt(other_field.length)
        return other_field.start_at is None or not exists_range(
            min(start_at, unopt(other_field.start_at)), max(end_at, unopt(other_field.start_at) + n),
            lambda bit: start_at <= bit < end_at and unopt(other_field.start_at) <= bit < unopt(other_field.start_at) + n)


# ---- BitField.__call__: one value checked, one value recorded (fragments of its second and third loop) -------------------------------
from pyvc.values import TOpt, ListV, NONE   # noqa: E402,F401
FIELD8 = TRec("Field", length=TOpt(TInt(1, 64)), start_at=TOpt(TInt(0, 63)), max_value=TInt(0, None))


def _get_field8(E, obj, args, kwargs, st, node):
    s = st.copy()
    s.trace = ListV(s.trace.items + (("get_field", args[0]),))
    return [(s, st.env["g_field"], None)]


@contract("rig/bitfield.py::BitField.__call__@forbody:1")
class CallChecksOneValue:
    """one value of a call: refused (ValueError) exactly when it is negative or does not fit a field of fixed length; checking
    records nothing - the field's largest value seen is untouched (values are recorded only after EVERY value of the call has
    been accepted: the third loop)"""
    properties = ("C08",)
    params = dict(self=TRec("BitField", fields=TRec("Tree")), identifier=TInt(), value=TInt(), field_values=TInt(), g_field=FIELD8)
    fragment_result = ("field",)
    fragment_head = "for identifier, value in field_values.items():"
    externals = {"Tree.get_field": _get_field8}
    raises = {"ValueError": None}
    options = {"no_merge": True}
    assumptions = ["the field tree is opaque: get_field returns the ghost field record (length None = not yet sized)"]

    def native(value):
        raise __import__("pyvc.replay", fromlist=["OutsideHarness"]).OutsideHarness()

    def raises_ValueError(value, g_field):
        return value < 0 or (g_field.length is not None and value >= 2 ** unopt8(g_field.length))

    def ensures_accepted_exactly_when_it_fits(value, g_field, identifier, field_values, _trace):
        return (value >= 0 and (g_field.length is None or value < 2 ** unopt8(g_field.length))
                and len(_trace) == 1 and _trace[0] == ("get_field", identifier))

    def ensures_checking_records_nothing(g_field, result):
        return result[0].max_value == g_field.max_value and result[0].length == g_field.length and result[0].start_at == g_field.start_at


def unopt8(x):
    return x


@contract("rig/bitfield.py::BitField.__call__@forbody:2")
class CallRecordsOneValue:
    """after all values were accepted: the field's largest value seen becomes the larger of what it was and this value"""
    properties = ("C08",)
    params = dict(self=TRec("BitField", fields=TRec("Tree")), identifier=TInt(), value=TInt(0, None), field_values=TInt(), g_field=FIELD8)
    fragment_result = ("field",)
    fragment_head = "for identifier, value in field_values.items():"
    externals = {"Tree.get_field": _get_field8}

    def native(value):
        raise __import__("pyvc.replay", fromlist=["OutsideHarness"]).OutsideHarness()

    def ensures_largest_value_seen(value, g_field, result):
        return result[0].max_value == max(g_field.max_value, value) and result[0].length == g_field.length


# ---- get_mask / get_value: one selected field (fragments) -----------------------------------------------------------------------------
WORD64 = TBV(W, 0, 2 ** 64 - 1)
FIELD_LS = TRec("Field", length=TOpt(TBV(W, 1, 64)), start_at=TOpt(TBV(W, 0, 63)))


def _u(x):
    return x


def _window(length, start):
    """the bits a field of that length at that position occupies"""
    return (1 << (start + length)) - (1 << start)


@contract("rig/bitfield.py::BitField.get_mask@forbody:0")
class GetMaskStep:
    """one selected field: its window - exactly the bits start .. start+length-1 - is added to the mask, nothing else changes;
    a field without a fixed size or position is refused"""
    properties = ("C08",)
    bv = W
    params = dict(identifier=TInt(), field=FIELD_LS, mask=WORD64)
    fragment_result = ("mask",)
    fragment_head = "for identifier, field in iteritems(selected_fields):"
    raises = {"ValueError": None}
    options = {"no_merge": True}

    def native(mask):
        raise __import__("pyvc.replay", fromlist=["OutsideHarness"]).OutsideHarness()

    def requires(field):
        return field.length is None or field.start_at is None or _u(field.start_at) + _u(field.length) <= 64

    def raises_ValueError(field):
        return field.length is None or field.start_at is None

    def ensures_adds_exactly_the_fields_window(field, mask, result):
        return (field.length is not None and field.start_at is not None
                and result[0] == (mask | _window(_u(field.length), _u(field.start_at))))


def _fv_get(E, obj, args, kwargs, st, node):
    return [(st, st.env["g_value"], None)]


@contract("rig/bitfield.py::BitField.get_value@forbody:0")
class GetValueStep:
    """one selected field with a value that fits it: the value is written into the field's own window - it reads back from
    exactly those bits - and every bit outside the window is unchanged"""
    properties = ("C08",)
    bv = W
    params = dict(self=TRec("BitField", field_values=TRec("Values")), identifier=TInt(), field=FIELD_LS, value=WORD64, g_value=WORD64)
    fragment_result = ("value",)
    fragment_head = "for identifier, field in iteritems(selected_fields):"
    externals = {"Values.__getitem__": _fv_get}
    raises = {"ValueError": None}
    options = {"no_merge": True}
    assumptions = ["self.field_values[identifier] is the ghost g_value; the window is free in the value so far (fields present together do not overlap: add_field's checks / assign_fields)"]

    def native(value):
        raise __import__("pyvc.replay", fromlist=["OutsideHarness"]).OutsideHarness()

    def requires(field, value, g_value):
        return (field.length is None or field.start_at is None
                or (_u(field.start_at) + _u(field.length) <= 64 and g_value < (1 << _u(field.length))
                    and (value & _window(_u(field.length), _u(field.start_at))) == 0))

    def raises_ValueError(field):
        return field.length is None or field.start_at is None

    def ensures_reads_back_from_its_window_and_leaves_the_rest(field, value, g_value, result):
        w = _window(_u(field.length), _u(field.start_at))
        return (field.length is not None and field.start_at is not None
                and ((result[0] & w) >> _u(field.start_at)) == g_value and (result[0] & ~w) == (value & ~w))
