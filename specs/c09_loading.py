"""C09 -- well-formedness of one flood fill (rig/machine_control/machine_controller.py:
_send_ffs, _send_ffcs, _send_ffd, _send_ffe, _get_next_nn_id).  The retry protocol of
load_application is decided by bounded/c09_loading.py against a machine model."""
from pyvc.spec import contract, lemma
from pyvc.values import TInt, TBool, TSeq, TRec, ListV, NONE
from pyvc.speclib import implies, forall_range, select, seq_len

BYTES = TSeq(TInt(0, 255), "bytes")
MC = TRec("MachineController", scp_data_length=TInt(4, 65536), _nn_id=TInt(0, 126))


def _send_scp(E, obj, args, kwargs, st, node):
    s = st.copy()
    s.trace = ListV(s.trace.items + (tuple(args),))
    return [(s, NONE, None)]


EXT = {"MachineController._send_scp": _send_scp}


class _Rec(object):
    """records what reaches _send_scp on a real controller object created without a connection"""
    @staticmethod
    def make(scp_data_length, nn_id=0):
        from rig.machine_control.machine_controller import MachineController
        mc = MachineController.__new__(MachineController)
        mc._scp_data_length = scp_data_length
        mc._nn_id = nn_id
        mc.trace = []
        mc._send_scp = lambda *a, **k: mc.trace.append(tuple(a))
        return mc


@contract("rig/machine_control/machine_controller.py::MachineController._send_ffs")
class SendFfs:
    properties = ("C09",)
    params = dict(self=MC, pid=TInt(2, 252), n_blocks=TInt(0, 255), fr=TInt(0, 65535))
    externals = EXT

    def native(self, pid, n_blocks, fr):
        mc = _Rec.make(self.scp_data_length)
        mc._send_ffs(pid, n_blocks, fr)
        return {"__native__": True, "result": None, "_trace": mc.trace}

    def ensures_start_packet_announces_the_block_count(pid, n_blocks, fr, _trace):
        # NN packet (cmd 20) to every chip: [31:24] = 6 (flood-fill start), [23:16] = id, [15:8] = blocks
        return (len(_trace) == 1 and _trace[0][0] == 255 and _trace[0][1] == 255 and _trace[0][2] == 0
                and _trace[0][3] == 20 and _trace[0][4] == 6 * 16777216 + pid * 65536 + n_blocks * 256
                and _trace[0][5] == 0 and _trace[0][6] == fr + 2147483648)


@contract("rig/machine_control/machine_controller.py::MachineController._send_ffcs")
class SendFfcs:
    properties = ("C09",)
    params = dict(self=MC, region=TInt(0, 2 ** 32 - 1), core_mask=TInt(0, 2 ** 18 - 1), fr=TInt(0, 65535))
    externals = EXT

    def native(self, region, core_mask, fr):
        mc = _Rec.make(self.scp_data_length)
        mc._send_ffcs(region, core_mask, fr)
        return {"__native__": True, "result": None, "_trace": mc.trace}

    def ensures_core_select_packet(region, core_mask, fr, _trace):
        return (len(_trace) == 1 and _trace[0][3] == 20 and _trace[0][4] == 7 * 16777216 + core_mask
                and _trace[0][5] == region and _trace[0][6] == fr
                and _trace[0][0] == 255 and _trace[0][1] == 255 and _trace[0][2] == 0)


@contract("rig/machine_control/machine_controller.py::MachineController._send_ffe")
class SendFfe:
    properties = ("C09",)
    params = dict(self=MC, pid=TInt(2, 252), app_id=TInt(0, 255), app_flags=TInt(0, 63), fr=TInt(0, 65535))
    externals = EXT

    def native(self, pid, app_id, app_flags, fr):
        mc = _Rec.make(self.scp_data_length)
        mc._send_ffe(pid, app_id, app_flags, fr)
        return {"__native__": True, "result": None, "_trace": mc.trace}

    def ensures_end_packet_names_the_fill_and_the_application(pid, app_id, app_flags, fr, _trace):
        return (len(_trace) == 1 and _trace[0][3] == 20 and _trace[0][4] == 15 * 16777216 + pid
                and _trace[0][5] == app_id * 16777216 + app_flags * 262144 and _trace[0][6] == fr)


@contract("rig/machine_control/machine_controller.py::MachineController._get_next_nn_id")
class NextNnId:
    properties = ("C09",)
    params = dict(self=MC)
    externals = EXT

    def native(self):
        mc = _Rec.make(self.scp_data_length, self._nn_id)
        r = mc._get_next_nn_id()
        import types
        return {"__native__": True, "result": r, "self_post": types.SimpleNamespace(_nn_id=mc._nn_id)}

    def ensures_cycles_through_1_to_126_doubled(self, result, self_post):
        return (1 <= self_post._nn_id <= 126 and result == 2 * self_post._nn_id
                and self_post._nn_id == (self._nn_id + 1 if self._nn_id < 126 else 1))


@contract("rig/machine_control/machine_controller.py::MachineController._send_ffd")
class SendFfd:
    properties = ("C09",)
    params = dict(self=MC, pid=TInt(2, 252), aplx_data=BYTES, address=TInt(0, 2 ** 32 - 1))
    externals = EXT
    # frame: `self` is only used to read scp_data_length and to call the (external) _send_scp
    options = {"trace_in_loops": False, "loop_keep": ["self"]}
    loop_headers = {0: "while pos < aplx_size:"}

    def native(self, pid, aplx_data, address):
        mc = _Rec.make(self.scp_data_length)
        mc._send_ffd(pid, aplx_data, address)
        return {"__native__": True, "result": None, "_trace": mc.trace, "local_block": len(mc.trace)}

    def requires(self, pid, aplx_data, address):
        # binaries and the machine's data buffer are whole words
        # ... and the block number and the word count each fit their 8-bit field of arg2
        return (seq_len(aplx_data) % 4 == 0 and self.scp_data_length % 4 == 0
                and self.scp_data_length <= 1024 and seq_len(aplx_data) <= 255 * self.scp_data_length)

    def inv_0_blocks_so_far(self, block, pos, address, old_address, aplx_size, aplx_data):
        L = self.scp_data_length
        return (aplx_size == seq_len(aplx_data) and 0 <= block <= 255 and address == old_address + pos
                and 0 <= pos <= aplx_size and pos % 4 == 0
                and (pos == block * L or (pos == aplx_size and (block - 1) * L < aplx_size <= block * L)))

    def variant_0(pos, aplx_size):
        return aplx_size - pos

    # every data block: numbered consecutively from 0, within the data buffer, at the next
    # address, carrying exactly the next bytes of the binary, size field = words - 1
    ghost_asserts = {"""self._send_scp(255, 255, 0, SCPCommands.flood_fill_data,
                           arg1, arg2, address, data)""": ["ghost_block_is_well_formed"]}

    def ghost_block_is_well_formed(self, pid, aplx_data, old_address, iter_block, iter_pos, block, pos, address, data, arg1, arg2, size):
        L = self.scp_data_length
        n = seq_len(data)
        return (block == iter_block and block * L == pos and 1 <= n <= L and n == min(L, seq_len(aplx_data) - pos)
                and address == old_address + pos
                and forall_range(0, n, lambda i: select(data, i) == select(aplx_data, pos + i))
                and (size + 1) * 4 == n and arg2 == block * 65536 + size * 256
                and arg1 == 0x3f * 16777216 + 0x18 * 65536 + pid)

    def ensures_sends_as_many_blocks_as_flood_fill_aplx_announces(self, aplx_data, local_block, local_pos):
        L = self.scp_data_length
        return local_block == (seq_len(aplx_data) + L - 1) // L and local_pos == seq_len(aplx_data)


# ---- one flood fill, start to end (the (filename, targets) form of flood_fill_aplx) ----------------------
from pyvc.values import TTuple, TList, ObjV as _ObjV   # noqa: E402

MCF = TRec("MachineController", scp_data_length=TInt(4, 1024), _nn_id=TInt(0, 126))
FILL = TTuple(TInt(0, 2 ** 32 - 1), TInt(1, 2 ** 18 - 1))


def _rec(name):
    def h(E, obj, args, kwargs, st, node):
        s = st.copy()
        s.trace = ListV(s.trace.items + ((name,) + tuple(args),))
        return [(s, NONE, None)]
    return h


def _compress(E, args, kwargs, st, node):
    # regions.compress_flood_fill_regions(targets): the (region, core mask) pairs (property C12)
    return [(st, st.env["g_fills"])]


def _open(E, args, kwargs, st, node):
    return [(st, _ObjV("File", {}))]


def _file_enter(E, obj, args, kwargs, st, node):
    return [(st, obj, None)]


def _file_exit(E, obj, args, kwargs, st, node):
    return [(st, NONE, None)]


def _file_read(E, obj, args, kwargs, st, node):
    return [(st, st.env["g_binary"], None)]


def _rsf(E, obj, args, kwargs, st, node):
    s = st.copy()
    s.trace = ListV(s.trace.items + (("read_struct_field",) + tuple(args),))
    return [(s, st.env["g_base"], None)]


@contract("rig/machine_control/machine_controller.py::MachineController.flood_fill_aplx")
class FloodFillAplx:
    """called as flood_fill_aplx(filename, targets, app_id=..., wait=...); the region list has two
    pairs (any number behaves alike: one _send_ffcs per pair, in the order given)"""
    properties = ("C09",)
    params = dict(self=MCF, args=TTuple(TInt(), TInt()), g_fills=TList(FILL, FILL), g_binary=BYTES, g_base=TInt(0, 2 ** 32 - 1),
                  g_app_id=TInt(0, 255), g_wait=TBool())
    externals = {"MachineController._send_ffs": _rec("ffs"), "MachineController._send_ffcs": _rec("ffcs"),
                 "MachineController._send_ffd": _rec("ffd"), "MachineController._send_ffe": _rec("ffe"),
                 "MachineController.read_struct_field": _rsf, "def:compress_flood_fill_regions": _compress, "open": _open, "File.__enter__": _file_enter,
                 "File.__exit__": _file_exit, "File.read": _file_read}
    options = {"decorators": {"use_contextual_arguments": "identity"}, "kwargs": {"app_id": "g_app_id", "wait": "g_wait"}}
    assumptions = ["ContextMixin.use_contextual_arguments treated as the identity (C18); the file's content, the region list (C12) and sv.sdram_sys are ghost inputs; _send_ffs/_send_ffcs/_send_ffd/_send_ffe are recorded here and verified by their own contracts"]

    def native(self, args, g_fills, g_binary, g_base, g_app_id, g_wait):
        raise __import__("pyvc.replay", fromlist=["OutsideHarness"]).OutsideHarness()

    def ensures_start_selects_data_end_in_order(self, g_fills, g_binary, g_base, g_app_id, g_wait, _trace):
        L = self.scp_data_length
        pid = 2 * (self._nn_id + 1 if self._nn_id < 126 else 1)
        fr = 0x3f * 256 + 0x18
        return (len(_trace) == 6
                and _trace[0] == ("ffs", pid, (seq_len(g_binary) + L - 1) // L, fr)
                and _trace[1] == ("ffcs", g_fills[0][0], g_fills[0][1], fr)
                and _trace[2] == ("ffcs", g_fills[1][0], g_fills[1][1], fr)
                and _trace[3][0] == "read_struct_field"
                and _trace[4][0] == "ffd" and _trace[4][1] == pid and _trace[4][2] == g_binary and _trace[4][3] == g_base
                and _trace[5] == ("ffe", pid, g_app_id, (1 if g_wait else 0), fr))


# ---- the retry loop of load_application, statement by statement (fragments of the real function) -----------------------
# The loop rebuilds the map of what is still unloaded out of per-core state reads (dicts of dicts of sets, built by three
# nested loops); each level is put under contract on its own statements, the composition over whole maps is bounded.
from pyvc.values import TSet, TTuple as _TT, TMap, TOpt   # noqa: E402
from pyvc.speclib import iff, forall_int, exists_int   # noqa: E402

WAIT = 5        # the "wait" core state, written from sark.h (enum run-time states: ... INIT 4, WAIT 5 ...), not read from rig.consts


def _read_state(E, obj, args, kwargs, st, node):
    """read_vcpu_struct_field("cpu_state", x, y, p): the state read is the ghost input g_state; the read is recorded"""
    s = st.copy()
    s.trace = ListV(s.trace.items + (("read_state",) + tuple(args),))
    return [(s, st.env["g_state"], None)]


@contract("rig/machine_control/machine_controller.py::MachineController.load_application@forbody:2")
class LoadApplicationCoreCheck:
    """one core of the verification pass: it stays on the unloaded list exactly when its state is not `wait`"""
    properties = ("C09",)
    params = dict(self=TRec("MachineController"), x=TInt(0, 255), y=TInt(0, 255), p=TInt(0, 17), unloaded_cores=TSet(TInt()),
                  g_state=TInt(0, 15))
    fragment_result = ("unloaded_cores",)
    fragment_head = "for p in cores:"
    externals = {"MachineController.read_vcpu_struct_field": _read_state}
    options = {"int_class": "rig/machine_control/consts.py::AppState"}
    assumptions = ["read_vcpu_struct_field is external here (C07 / C14): the state it returns is a ghost input"]

    def native(x, y, p, unloaded_cores, g_state):
        # the real load_application on a one-core map, one attempt, per-core verification: the core is reported unloaded
        # (SpiNNakerLoadingError naming it) exactly when the fragment leaves it on the list
        if p in unloaded_cores:
            raise __import__("pyvc.replay", fromlist=["OutsideHarness"]).OutsideHarness()
        import rig.machine_control.machine_controller as M
        mc = M.MachineController.__new__(M.MachineController)
        M.ContextMixin.__init__(mc, {"app_id": 30})
        reads = []
        mc.flood_fill_aplx = lambda *a, **k: None
        mc.read_vcpu_struct_field = lambda field, x_, y_, p_: (reads.append(("read_state", field, x_, y_, p_)), g_state)[1]
        real_sleep, M.time.sleep = M.time.sleep, (lambda s: None)
        try:
            try:
                mc.load_application({"app": {(x, y): {p}}}, app_id=30, wait=True, n_tries=0, app_start_delay=0, use_count=False)
                out = set(unloaded_cores)
            except M.SpiNNakerLoadingError as e:
                out = set(unloaded_cores) | set(e.app_map["app"][(x, y)])
        finally:
            M.time.sleep = real_sleep
        return {"__native__": True, "result": (out,), "raised": None, "_trace": reads}

    def requires(g_state):
        return 0 <= g_state <= 11 or g_state == 15       # the states SARK defines (the 4-bit field has three unused codes)

    def ensures_reads_the_state_of_exactly_this_core(x, y, p, _trace):
        return len(_trace) == 1 and _trace[0] == ("read_state", "cpu_state", x, y, p)

    def ensures_unloaded_exactly_when_not_waiting(p, unloaded_cores, g_state, result):
        return (iff(p in result[0], p in unloaded_cores or g_state != WAIT)
                and forall_int(lambda q: implies(q != p, (q in result[0]) == (q in unloaded_cores))))


T2 = _TT(TInt(0, 255), TInt(0, 255))
from pyvc.values import TSmallSet   # noqa: E402
CORES = TSmallSet(list(range(18)))       # the cores of a chip


@contract("rig/machine_control/machine_controller.py::MachineController.load_application@if:4")
class LoadApplicationChipCheck:
    """a chip stays on the unloaded list exactly when one of its cores does, and then with exactly those cores"""
    properties = ("C09",)
    params = dict(x=TInt(0, 255), y=TInt(0, 255), unloaded_cores=CORES, unloaded_targets=TMap(T2, CORES))
    fragment_result = ("unloaded_targets",)
    fragment_head = "unloaded_targets[(x, y)] = unloaded_cores"     # (anchored by what the `if` guards)

    def native(x):
        raise __import__("pyvc.replay", fromlist=["OutsideHarness"]).OutsideHarness()

    def requires(x, y, unloaded_targets):
        return (x, y) not in unloaded_targets           # (chips are the keys of a dict: each is visited once)

    def ensures_listed_exactly_when_a_core_is_unloaded(x, y, unloaded_cores, unloaded_targets, result):
        some = any(q in unloaded_cores for q in range(18))
        return (iff((x, y) in result[0], some)
                and implies(some, all((q in result[0][(x, y)]) == (q in unloaded_cores) for q in range(18))))

    def ensures_other_chips_untouched(x, y, unloaded_targets, result):
        return forall_int(lambda a, b: implies(not (a == x and b == y), ((a, b) in result[0]) == ((a, b) in unloaded_targets)
                                               and implies((a, b) in unloaded_targets,
                                                           all((q in result[0][(a, b)]) == (q in unloaded_targets[(a, b)]) for q in range(18)))))


def _store_app(E, obj, args, kwargs, st, node):
    """new_unloadeds[app_name] = unloaded_targets: the name is recorded, the map stored is the ghost g_stored"""
    s = st.copy()
    s.env = dict(s.env)
    s.env["g_stored"] = args[1]
    s.trace = ListV(s.trace.items + (("still_unloaded", args[0]),))
    return [(s, NONE, None)]


@contract("rig/machine_control/machine_controller.py::MachineController.load_application@if:5")
class LoadApplicationBinaryCheck:
    """a binary stays on the unloaded list exactly when one of its chips does, and then with exactly those chips and cores"""
    properties = ("C09",)
    params = dict(app_name=TInt(), unloaded_targets=TMap(T2, CORES), new_unloadeds=TRec("Dict"), g_stored=TMap(T2, CORES))
    fragment_result = ()
    fragment_head = "new_unloadeds[app_name] = unloaded_targets"     # (anchored by what the `if` guards)
    externals = {"Dict.__setitem__": _store_app}
    assumptions = ["the dict of still-unloaded binaries is an opaque object here: what is stored into it is recorded (name in the trace, map as ghost g_stored)"]

    def native(app_name):
        raise __import__("pyvc.replay", fromlist=["OutsideHarness"]).OutsideHarness()

    def ensures_listed_exactly_when_a_chip_is_unloaded(app_name, unloaded_targets, g_stored_post, _trace):
        some = exists_int(lambda a, b: (a, b) in unloaded_targets)
        return (iff(len(_trace) == 1, some) and len(_trace) <= 1
                and implies(some, _trace[0] == ("still_unloaded", app_name)
                            and forall_int(lambda a, b: ((a, b) in g_stored_post) == ((a, b) in unloaded_targets)
                                           and implies((a, b) in unloaded_targets,
                                                       all((q in g_stored_post[(a, b)]) == (q in unloaded_targets[(a, b)]) for q in range(18))))))


def _send_signal(E, obj, args, kwargs, st, node):
    s = st.copy()
    s.trace = ListV(s.trace.items + (("signal",) + tuple(args),))
    return [(s, NONE, None)]


APPMAP = TMap(TInt(), TInt())       # binary (by id) -> what is still unloaded for it (opaque here: only emptiness matters)


@contract("rig/machine_control/machine_controller.py::MachineController.load_application@seq:11:2")
class LoadApplicationOutcome:
    """what follows the retry loop: the loading error exactly when something is still unloaded - carrying that map - and
    otherwise the start signal for this application exactly when the caller did not ask for the cores to be left waiting"""
    properties = ("C09",)
    params = dict(self=TRec("MachineController"), unloaded=APPMAP, wait=TBool(), app_id=TInt(0, 255))
    fragment_result = ()
    fragment_head = "raise SpiNNakerLoadingError(unloaded)"     # (anchored by what the first `if` guards)
    externals = {"MachineController.send_signal": _send_signal}
    raises = {"SpiNNakerLoadingError": None}
    assumptions = ["send_signal is recorded here (its packet: C18 / bounded layer)"]

    def native(app_id):
        raise __import__("pyvc.replay", fromlist=["OutsideHarness"]).OutsideHarness()

    def raises_SpiNNakerLoadingError(unloaded, _trace):
        return exists_int(lambda k: k in unloaded) and len(_trace) == 0

    def ensures_returns_only_when_nothing_is_left_and_starts_unless_asked_to_wait(unloaded, wait, app_id, _trace):
        return (not exists_int(lambda k: k in unloaded)
                and implies(wait, len(_trace) == 0)
                and implies(not wait, len(_trace) == 1 and _trace[0] == ("signal", "start", app_id)))


# ---- the signals load_application relies on: start / stop, and the count of waiting cores ----------------------------------
def _scp_rec(E, obj, args, kwargs, st, node):
    s = st.copy()
    s.trace = ListV(s.trace.items + (("scp",) + tuple(args),))
    return [(s, st.env["g_reply"] if "g_reply" in st.env else NONE, None)]


CMD_SIGNAL = 22          # SCP command "signal" (sark.h: CMD_SIG 22)


def nn_signal(sig):
    """signals sent as nearest-neighbour packets (init, power-down, stop, start, exit); the others go by multicast (ybug's
    sig_type table: NN 2, MC 0)"""
    return sig == 0 or sig == 1 or sig == 2 or sig == 3 or sig == 8


@contract("rig/machine_control/machine_controller.py::MachineController.send_signal")
class SendSignal:
    """(signal given as a number; names are looked up in the enumeration first)"""
    properties = ("C09",)
    params = dict(self=TRec("MachineController"), signal=TInt(0, 255), app_id=TInt(0, 255))
    externals = {"MachineController._send_scp": _scp_rec}
    options = {"decorators": {"use_contextual_arguments": "identity"}, "int_class": "rig/machine_control/consts.py::AppSignal"}
    raises = {"ValueError": None}
    assumptions = ["_send_scp is recorded here (C18)"]

    def native(signal):
        raise __import__("pyvc.replay", fromlist=["OutsideHarness"]).OutsideHarness()

    def raises_ValueError(signal, _trace):
        return not (0 <= signal <= 13) and len(_trace) == 0            # nothing is sent for a number that is no signal

    def ensures_one_signal_packet_for_exactly_this_application(signal, app_id, _trace):
        return (0 <= signal <= 13 and len(_trace) == 1
                and _trace[0] == ("scp", 255, 255, 0, CMD_SIGNAL, (2 if nn_signal(signal) else 0),
                                  signal * 65536 + 0xff00 + app_id, 0xffff))


@contract("rig/machine_control/machine_controller.py::MachineController.count_cores_in_state")
class CountCoresInState:
    """(state given as a number) one count request for exactly this state of exactly this application over the whole machine
    (region word 0x0000ffff: level 0, every block); the answer is the reply's first argument"""
    properties = ("C09",)
    params = dict(self=TRec("MachineController"), state=TInt(0, 255), app_id=TInt(0, 255), g_reply=TRec("SCPPacket", arg1=TInt(0, 2 ** 32 - 1)))
    externals = {"MachineController._send_scp": _scp_rec}
    options = {"decorators": {"use_contextual_arguments": "identity"}, "int_class": "rig/machine_control/consts.py::AppState"}
    raises = {"ValueError": None}
    assumptions = ["_send_scp is recorded here (C18); its reply is the ghost g_reply"]

    def native(state):
        raise __import__("pyvc.replay", fromlist=["OutsideHarness"]).OutsideHarness()

    def raises_ValueError(state, _trace):
        return not (0 <= state <= 11 or state == 15) and len(_trace) == 0

    def ensures_counts_this_state_of_this_application_everywhere(state, app_id, g_reply, result, _trace):
        # arg2: level 0 << 26 | "all cores of the region" 1 << 22 | operation count (2) << 20 | state << 16 | app mask 0xff << 8 | app
        return ((0 <= state <= 11 or state == 15) and result == g_reply.arg1 and len(_trace) == 1
                and _trace[0] == ("scp", 255, 255, 0, CMD_SIGNAL, 1, (1 << 22) + (2 << 20) + state * 65536 + 0xff00 + app_id, 0xffff))


# ---- load_application: one ATTEMPT (the body of its while loop); the verification scan itself is abstracted here - its three
# ---- nested steps are under contract above (LoadApplicationCoreCheck / ChipCheck / BinaryCheck) ---------------------------------
from pyvc.values import TBool as _TBool, ObjV as _ObjV9, TReal as _TReal   # noqa: E402
from pyvc.speclib import ite as _ite   # noqa: E402

DICT9 = TRec("Dict", ident=TInt())


def _la_fill(E, obj, args, kwargs, st, node):
    s = st.copy()
    s.trace = ListV(s.trace.items + (("flood_fill", tuple(args), tuple(sorted(kwargs.items()))),))
    return [(s, NONE, None)]


def _la_sleep(E, args, kwargs, st, node):
    s = st.copy()
    s.trace = ListV(s.trace.items + (("sleep",) + tuple(args),))
    return [(s, NONE)]


def _la_count(E, obj, args, kwargs, st, node):
    s = st.copy()
    s.trace = ListV(s.trace.items + (("count",) + tuple(args),))
    return [(s, st.env["g_count"], None)]


def _la_dict(E, args, kwargs, st, node):
    return [(st, st.env["g_fresh_dict"])]


@contract("rig/machine_control/machine_controller.py::MachineController.load_application@whilebody:0")
class LoadApplicationAttempt:
    """one attempt: exactly the targets STILL unloaded are filled again (never the whole request again), for the application
    of the call and always held in `wait`; the cores are given app_start_delay to come up; with use_count the attempt is
    accepted exactly when the number of cores of the application in state `wait` equals the number requested - otherwise (and
    always without use_count) what remains unloaded is what the per-core scan found; every attempt is counted"""
    properties = ("C09",)
    params = dict(self=TRec("MachineController"), unloaded=DICT9, tries=TInt(0, None), app_id=TInt(0, 255), app_start_delay=_TReal(),
                  use_count=_TBool(), core_count=TInt(0, None), g_count=TInt(0, None), g_fresh_dict=DICT9,
                  # (the other variables of the function that are live here: a changed body that uses them is verified, not skipped)
                  application_map=DICT9, n_tries=TInt(0, None), wait=_TBool())
    fragment_result = ("tries",)
    fragment_head = "while unloaded != {} and tries <= n_tries:"
    externals = {"MachineController.flood_fill_aplx": _la_fill, "sleep": _la_sleep, "MachineController.count_cores_in_state": _la_count, "dict": _la_dict}
    abstracted = {"for (app_name, targets) in iteritems(unloaded):": {"new_unloadeds": DICT9}}
    options = {"no_merge": True}
    assumptions = ["flood_fill_aplx (FloodFillAplx), count_cores_in_state (CountCoresInState) and time.sleep are recorded here; dictionaries are opaque identities"]

    def native(tries):
        raise __import__("pyvc.replay", fromlist=["OutsideHarness"]).OutsideHarness()

    def ensures_fills_what_is_still_unloaded_then_waits(unloaded, app_id, app_start_delay, tries, result, _trace):
        return (len(_trace) >= 2 and _trace[0] == ("flood_fill", (unloaded,), (("app_id", app_id), ("wait", True)))
                and _trace[1] == ("sleep", app_start_delay) and result[0] == tries + 1)

    def ensures_counts_the_waiting_cores_of_this_application_when_asked_to(use_count, app_id, _trace):
        return (implies(use_count, len(_trace) == 3 and _trace[2] == ("count", "wait", app_id))
                and implies(not use_count, len(_trace) == 2))

    # which of the two outcomes an attempt has: nothing left to load (accepted by the count) / what the scan found
    ghost_asserts = {"unloaded = {}": ["ghost_accepted_only_when_all_requested_cores_wait"],
                     "unloaded = new_unloadeds": ["ghost_scan_result_taken_whenever_the_count_does_not_settle_it"]}

    def ghost_accepted_only_when_all_requested_cores_wait(use_count, core_count, g_count):
        return use_count and core_count == g_count

    def ghost_scan_result_taken_whenever_the_count_does_not_settle_it(use_count, core_count, g_count):
        return not (use_count and core_count == g_count)


MAP9 = TMap(TInt(), TInt())


def _la_fill2(E, obj, args, kwargs, st, node):
    return [(st, NONE, None)]


def _la_sleep2(E, args, kwargs, st, node):
    return [(st, NONE)]


def _la_count2(E, obj, args, kwargs, st, node):
    from pyvc.values import fresh
    v, facts = fresh(TInt(0, None), "count")
    return [(st.assume(*facts), v, None)]


def _la_dict2(E, args, kwargs, st, node):
    from pyvc.values import fresh
    v, facts = fresh(MAP9, "newdict")
    return [(st.assume(*facts), v)]


@contract("rig/machine_control/machine_controller.py::MachineController.load_application@while:0")
class LoadApplicationAttempts:
    """the attempts END: at most n_tries + 1 of them (the first load and n_tries repeats), fewer exactly when nothing is left
    unloaded - whatever the fills, the counts and the scans return"""
    properties = ("C09",)
    params = dict(self=TRec("MachineController"), unloaded=MAP9, tries=TInt(0, None), n_tries=TInt(0, None), app_id=TInt(0, 255),
                  app_start_delay=_TReal(), use_count=_TBool(), core_count=TInt(0, None), application_map=MAP9, wait=_TBool())
    fragment_result = ("unloaded", "tries")
    fragment_head = "while unloaded != {} and tries <= n_tries:"
    externals = {"MachineController.flood_fill_aplx": _la_fill2, "sleep": _la_sleep2, "MachineController.count_cores_in_state": _la_count2, "dict": _la_dict2}
    abstracted = {"for (app_name, targets) in iteritems(unloaded):": {"new_unloadeds": MAP9}}
    loop_headers = {0: "while unloaded != {} and tries <= n_tries:"}
    options = {"var_shapes": {"unloaded": MAP9, "new_unloadeds": MAP9}}
    assumptions = ["fills, counts, sleeps and the scan are arbitrary here (their contracts are LoadApplicationAttempt, FloodFillAplx, CountCoresInState, the three scan steps)"]

    def native(tries):
        raise __import__("pyvc.replay", fromlist=["OutsideHarness"]).OutsideHarness()

    def requires(tries):
        return tries == 0

    def inv_0_attempts_so_far(tries, n_tries):
        return 0 <= tries <= n_tries + 1

    def variant_0(tries, n_tries):
        return n_tries + 1 - tries

    def ensures_stops_only_when_loaded_or_out_of_attempts(n_tries, result):
        return (result[0] == {} and result[1] <= n_tries + 1) or result[1] == n_tries + 1


# ---- flood_fill_aplx: ONE application of the map (fragment): every application is loaded with its OWN file and its OWN targets ---------


def _compress_rec(E, args, kwargs, st, node):
    s = st.copy()
    s.trace = ListV(s.trace.items + (("compress", args[0]),))
    return [(s, st.env["g_fills"])]


def _open_rec(E, args, kwargs, st, node):
    s = st.copy()
    s.trace = ListV(s.trace.items + (("open",) + tuple(args),))
    return [(s, _ObjV("File", {}))]


@contract("rig/machine_control/machine_controller.py::MachineController.flood_fill_aplx@forbody:0")
class FloodFillOneApplication:
    """one application of the map: ITS targets are compressed and ITS file is read; the fill announces the blocks of that very
    file, selects exactly the pairs just computed (in the order given), sends that file's bytes to the buffer address read for
    this fill, and ends naming the application id and flags of the call - nothing is carried over from the application before"""
    properties = ("C09", "C12")
    params = dict(self=MCF, aplx=TInt(), targets=TInt(), app_id=TInt(0, 255), flags=TInt(0, 255), fr=TInt(0, 0xffff),
                  g_fills=TList(FILL, FILL), g_binary=BYTES, g_base=TInt(0, 2 ** 32 - 1))
    fragment_result = ()
    fragment_head = "for aplx, targets in iteritems(application_map):"
    externals = {"MachineController._send_ffs": _rec("ffs"), "MachineController._send_ffcs": _rec("ffcs"),
                 "MachineController._send_ffd": _rec("ffd"), "MachineController._send_ffe": _rec("ffe"),
                 "MachineController.read_struct_field": _rsf, "def:compress_flood_fill_regions": _compress_rec, "open": _open_rec, "File.__enter__": _file_enter,
                 "File.__exit__": _file_exit, "File.read": _file_read}
    assumptions = ["the file's content, the region list (C12) and sv.sdram_sys are ghost inputs; compress_flood_fill_regions, open and the four _send_ff* "
                   "methods are recorded here and verified by their own contracts"]

    def native(aplx):
        raise __import__("pyvc.replay", fromlist=["OutsideHarness"]).OutsideHarness()

    def ensures_its_own_targets_file_pairs_and_bytes(self, aplx, targets, app_id, flags, fr, g_fills, g_binary, g_base, _trace):
        L = self.scp_data_length
        pid = 2 * (self._nn_id + 1 if self._nn_id < 126 else 1)
        return (len(_trace) == 8
                and _trace[0] == ("compress", targets) and _trace[1] == ("open", aplx, "rb")
                and _trace[2] == ("ffs", pid, (seq_len(g_binary) + L - 1) // L, fr)
                and _trace[3] == ("ffcs", g_fills[0][0], g_fills[0][1], fr)
                and _trace[4] == ("ffcs", g_fills[1][0], g_fills[1][1], fr)
                and _trace[5][0] == "read_struct_field"
                and _trace[6][0] == "ffd" and _trace[6][1] == pid and _trace[6][2] == g_binary and _trace[6][3] == g_base
                and _trace[7] == ("ffe", pid, app_id, flags, fr))


# ---- count_cores_in_state given SEVERAL states: one count per state, each for the caller's application, summed -----------------------
def _ccs_rec(E, obj, args, kwargs, st, node):
    s = st.copy()
    n = len(s.trace.items)
    s.trace = ListV(s.trace.items + (("count",) + tuple(args) + tuple(sorted(kwargs.items())),))
    return [(s, st.env["g_counts"][n], None)]


@contract("rig/machine_control/machine_controller.py::MachineController.count_cores_in_state", variant="several_states")
class CountCoresInSeveralStates:
    """(states given as a sequence) every state is counted once, in order, for the SAME application the call was made for - not for
    whatever the enclosing context says - and the counts are added up"""
    properties = ("C09", "C18")
    params = dict(self=TRec("MachineController"), state=TTuple(TInt(0, 15), TInt(0, 15), TInt(0, 15)), app_id=TInt(0, 255),
                  g_counts=TTuple(TInt(0, 2 ** 32 - 1), TInt(0, 2 ** 32 - 1), TInt(0, 2 ** 32 - 1)))
    externals = {"MachineController.count_cores_in_state": _ccs_rec}
    options = {"decorators": {"use_contextual_arguments": "identity"}, "int_class": "rig/machine_control/consts.py::AppState"}
    assumptions = ["the recursive calls (contract CountCoresInState, the single-state form) are recorded and return ghost counts"]

    def native(state):
        raise __import__("pyvc.replay", fromlist=["OutsideHarness"]).OutsideHarness()

    def ensures_each_state_counted_once_for_this_application_and_summed(state, app_id, g_counts, result, _trace):
        return (len(_trace) == 3 and all(_trace[i] == ("count", state[i], app_id) for i in range(3))
                and result == g_counts[0] + g_counts[1] + g_counts[2])
