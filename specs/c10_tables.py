"""C10 -- decoding of a router entry read back from a chip
(rig/machine_control/machine_controller.py::unpack_routing_table_entry).  Record layout
"<2H 3I": index, free (app id | core<<8), route word, key, mask; an unused entry has the top
byte of its route word set to 0xFF.  Tree-to-table conversion and loading are decided by
bounded/c10_tables.py against a router model."""
from pyvc.spec import contract, lemma
from pyvc.values import TInt, TSeq, ObjV
from pyvc.speclib import implies, iff, select, seq_len, bits

BYTES = TSeq(TInt(0, 255), "bytes")


def _rte(E, args, kwargs, st, node):
    names = ["route", "key", "mask", "sources"]
    f = dict(zip(names, args))
    f.update(kwargs)
    return [(st, ObjV("RoutingTableEntry", f))]


def le16(b, i):
    return select(b, i) + 256 * select(b, i + 1)


def le32(b, i):
    return select(b, i) + 256 * select(b, i + 1) + 65536 * select(b, i + 2) + 16777216 * select(b, i + 3)


@contract("rig/machine_control/machine_controller.py::unpack_routing_table_entry")
class UnpackEntry:
    properties = ("C10",)
    params = dict(packed=BYTES)
    externals = {"class:RoutingTableEntry": _rte}
    raises = {"struct.error": None}

    def raises_struct__error(packed):
        return seq_len(packed) != 16

    def ensures_unused_marker(packed, result):
        return iff(result is None, select(packed, 7) == 255)

    def ensures_route_bits_key_mask_and_owner(packed, result):
        return result is None or (
            all((r in result[0].route) == (bits(le32(packed, 4), r, 1) == 1) for r in range(24))
            and result[0].key == le32(packed, 8) and result[0].mask == le32(packed, 12)
            and result[1] == select(packed, 2) and result[2] == select(packed, 3) % 16)


# ---- loading a table: allocation, encoding of every entry, one write, one router-load command -----------
from pyvc.values import TRec, TSmallSet, ListV, NONE, TBool   # noqa: E402
from pyvc.speclib import forall_range, opaque   # noqa: E402

U32 = TInt(0, 2 ** 32 - 1)
ROUTES = list(range(24))
ENTRY = TRec("RoutingTableEntry", route=TSmallSet(ROUTES), key=U32, mask=U32)
MC = TRec("MachineController")
REPLY = TRec("SCPPacket", arg1=U32)


def _send_scp(E, obj, args, kwargs, st, node):
    s = st.copy()
    s.trace = ListV(s.trace.items + (("scp",) + tuple(args),))
    return [(s, st.env["g_alloc_reply"], None)]


def _read_struct_field(E, obj, args, kwargs, st, node):
    s = st.copy()
    s.trace = ListV(s.trace.items + (("read_struct_field",) + tuple(args),))
    return [(s, st.env["g_buf"], None)]


def _write(E, obj, args, kwargs, st, node):
    s = st.copy()
    s.trace = ListV(s.trace.items + (("write",) + tuple(args),))
    return [(s, NONE, None)]


@opaque
def route_word(e):
    """bit r of the route word is set exactly for the routes of the entry"""
    return sum(((1 << r) if r in e.route else 0) for r in range(24))


def record_ok(data, j, e):
    """the 16-byte router record at index j of the buffer encodes entry e"""
    return (le16(data, 16 * j) == j and le16(data, 16 * j + 2) == 0 and le32(data, 16 * j + 4) == route_word(e)
            and le32(data, 16 * j + 8) == e.key and le32(data, 16 * j + 12) == e.mask)


def _mk_entries(entries):
    from rig.routing_table import RoutingTableEntry, Routes
    return [RoutingTableEntry({Routes(r) for r in e.route}, e.key, e.mask) for e in entries]


@contract("rig/machine_control/machine_controller.py::MachineController.load_routing_table_entries")
class LoadEntries:
    properties = ("C10",)
    params = dict(self=MC, entries=TSeq(ENTRY, maxlen=1024), x=TInt(0, 255), y=TInt(0, 255), app_id=TInt(0, 255),
                  g_alloc_reply=REPLY, g_buf=U32)
    externals = {"MachineController._send_scp": _send_scp, "MachineController.read_struct_field": _read_struct_field,
                 "MachineController.write": _write}
    options = {"decorators": {"use_contextual_arguments": "identity"}, "trace_in_loops": False, "loop_keep": ["self"]}
    raises = {"SpiNNakerRouterError": None}
    loop_headers = {0: "for i, entry in enumerate(entries):"}
    assumptions = ["ContextMixin.use_contextual_arguments treated as the identity (property C18)",
                   "the machine's replies (allocation result, sv.sdram_sys) are ghost inputs; the router installs what the load command names (assumed, model in bounded/_scamp.py)"]

    def native(entries, x, y, app_id, g_alloc_reply, g_buf):
        from rig.machine_control.machine_controller import MachineController
        from rig.utils.contexts import ContextMixin
        import types
        mc = MachineController.__new__(MachineController)
        ContextMixin.__init__(mc, {})
        tr = []
        mc._send_scp = lambda *a, **k: (tr.append(("scp",) + a), types.SimpleNamespace(arg1=g_alloc_reply.arg1))[1]
        mc.read_struct_field = lambda *a: (tr.append(("read_struct_field",) + a), g_buf)[1]
        mc.write = lambda *a: tr.append(("write",) + a)
        try:
            mc.load_routing_table_entries(_mk_entries(entries), x, y, app_id)
            raised = None
        except Exception as e:
            raised = type(e).__name__
        return {"__native__": True, "result": None, "raised": raised, "_trace": tr}

    def raises_SpiNNakerRouterError(g_alloc_reply, _trace):
        # only when the block could not be allocated, and then nothing was written or loaded
        return g_alloc_reply.arg1 == 0 and len(_trace) == 1

    # the word packed for an entry is the OR of its routes' bits (proved at the pack statement and
    # then available to the invariant step)
    ghost_asserts = {"""struct.pack_into(consts.RTE_PACK_STRING, data, i*16,
                             i, 0, route, entry.key, entry.mask)""": ["ghost_route_word_is_the_or_of_the_routes"]}

    def ghost_route_word_is_the_or_of_the_routes(route, entry):
        return route == route_word(entry)

    def inv_0_size(data, entries):
        return seq_len(data) == 16 * seq_len(entries)

    def inv_0_index_and_free_words(data, _k0):
        return forall_range(0, _k0, lambda j: le16(data, 16 * j) == j and le16(data, 16 * j + 2) == 0)

    def inv_0_route_words(data, entries, _k0):
        return forall_range(0, _k0, lambda j: le32(data, 16 * j + 4) == route_word(select(entries, j)))

    def inv_0_keys(data, entries, _k0):
        return forall_range(0, _k0, lambda j: le32(data, 16 * j + 8) == select(entries, j).key)

    def inv_0_masks(data, entries, _k0):
        return forall_range(0, _k0, lambda j: le32(data, 16 * j + 12) == select(entries, j).mask)

    def ensures_allocates_then_writes_then_loads(entries, x, y, app_id, g_alloc_reply, g_buf, _trace):
        n = seq_len(entries)
        return (g_alloc_reply.arg1 != 0 and len(_trace) == 4
                and _trace[0][:6] == ("scp", x, y, 0, 28, app_id * 256 + 3) and _trace[0][6] == n
                and _trace[2][0] == "write" and _trace[2][1] == g_buf and _trace[2][3] == x and _trace[2][4] == y
                and _trace[3][:5] == ("scp", x, y, 0, 29) and _trace[3][5] == n * 65536 + app_id * 256 + 2
                and _trace[3][6] == g_buf and _trace[3][7] == g_alloc_reply.arg1)

    def ensures_buffer_size(entries, _trace):
        return seq_len(_trace[2][2]) == 16 * seq_len(entries)

    def ensures_records_are_numbered_in_order(entries, _trace):
        data = _trace[2][2]
        return forall_range(0, seq_len(entries), lambda j: le16(data, 16 * j) == j and le16(data, 16 * j + 2) == 0)

    def ensures_route_words_are_exactly_the_entries_routes(entries, _trace):
        data = _trace[2][2]
        return forall_range(0, seq_len(entries), lambda j: le32(data, 16 * j + 4) == route_word(select(entries, j)))

    def ensures_keys_and_masks(entries, _trace):
        data = _trace[2][2]
        return forall_range(0, seq_len(entries), lambda j: le32(data, 16 * j + 8) == select(entries, j).key
                            and le32(data, 16 * j + 12) == select(entries, j).mask)


# ---- reading a router back: 1024 records of 16 bytes, each decoded from its own bytes, in order ------------------------
from pyvc.values import to_int_term, TBV   # noqa: E402
from pyvc.speclib import uf   # noqa: E402


def _read_rtr(E, obj, args, kwargs, st, node):
    s = st.copy()
    s.trace = ListV(s.trace.items + (("read",) + tuple(args),))
    return [(s, st.env["g_data"], None)]


def _rsf_copy(E, obj, args, kwargs, st, node):
    s = st.copy()
    s.trace = ListV(s.trace.items + (("read_struct_field",) + tuple(args),))
    return [(s, st.env["g_addr"], None)]


def _unpack_token(E, args, kwargs, st, node):
    """unpack_routing_table_entry (verified by its own contract above) is replaced by an uninterpreted function of the 16
    bytes it is given - so the result list says which bytes each element was decoded from"""
    import z3
    from pyvc import seqs
    entry = args[0]
    vals = [to_int_term(seqs.seq_get(entry, i)[0]) for i in range(16)]
    f = z3.Function("uf_unpacked", *([z3.IntSort()] * 17))
    return [(st, f(*vals))]


def unpacked(data, off):
    """the decoding of the 16-byte record at byte offset `off` of data"""
    return uf("unpacked", *[select(data, off + i) for i in range(16)])


@contract("rig/machine_control/machine_controller.py::MachineController.get_routing_table_entries")
class GetRoutingTableEntries:
    properties = ("C10",)
    params = dict(self=MC, x=TInt(0, 255), y=TInt(0, 255), g_addr=U32, g_data=BYTES)
    externals = {"MachineController.read_struct_field": _rsf_copy, "MachineController.read": _read_rtr,
                 "def:unpack_routing_table_entry": _unpack_token}
    options = {"decorators": {"use_contextual_arguments": "identity"}, "trace_in_loops": False,
               "var_shapes": {"table": TSeq(TInt()), "entry": BYTES, "rtr_data": BYTES}}
    loop_headers = {0: "while len(rtr_data) > 0:"}
    ghost_asserts = {"table.append(unpack_routing_table_entry(entry))": ["ghost_decodes_the_next_16_byte_record"]}
    assumptions = ["the transport (read / read_struct_field) is external: the router copy's address and the 16384 bytes read are ghost inputs; "
                   "unpack_routing_table_entry is verified by its own contract and stands here for 'decoded from the bytes at this offset'"]

    def native(x, y):
        raise __import__("pyvc.replay", fromlist=["OutsideHarness"]).OutsideHarness()

    def requires(g_data):
        return seq_len(g_data) == 16384       # what the read of RTR_ENTRIES * 16 bytes returns

    def inv_0_whole_records_remain(rtr_data, table, g_data):
        return (seq_len(rtr_data) == 16384 - 16 * seq_len(table) and 0 <= seq_len(table) <= 1024
                and forall_range(0, seq_len(rtr_data), lambda i: select(rtr_data, i) == select(g_data, 16 * seq_len(table) + i)))

    def inv_0_done_records_in_order(table, g_data):
        return forall_range(0, seq_len(table), lambda j: select(table, j) == unpacked(g_data, 16 * j))

    def variant_0(rtr_data):
        return seq_len(rtr_data)

    def ghost_decodes_the_next_16_byte_record(entry, iter_table, g_data):
        k = seq_len(iter_table)
        return seq_len(entry) == 16 and forall_range(0, 16, lambda i: select(entry, i) == select(g_data, 16 * k + i))

    def ensures_asks_for_the_address_of_this_chips_router_copy(x, y, _trace):
        return len(_trace) == 2 and _trace[0] == ("read_struct_field", "sv", "rtr_copy", x, y)

    def ensures_reads_the_whole_router_copy_once(x, y, g_addr, _trace):
        return _trace[1] == ("read", g_addr, 16384, x, y)

    def ensures_one_element_per_router_entry_in_order(result, g_data):
        return seq_len(result) == 1024 and forall_range(0, 1024, lambda j: select(result, j) == unpacked(g_data, 16 * j))


@lemma("a_loaded_record_reads_back_as_the_entry_given")
class RecordRoundTrip:
    """the record load_routing_table_entries writes for an entry (its contract: record_ok) satisfies, under the contract of
    unpack_routing_table_entry, exactly: not 'unused', the same route set, key and mask - so what get_routing_table_entries
    returns for a block loaded with a table is that table, entry by entry.  (bit-vector arithmetic: the route word is an OR of bits)"""
    properties = ("C10",)
    bv = 40
    params = dict(b4=TBV(40, 0, 255), b5=TBV(40, 0, 255), b6=TBV(40, 0, 255), b7=TBV(40, 0, 255), e=TRec("RoutingTableEntry", route=TSmallSet(ROUTES)))

    def assuming(b4, b5, b6, b7, e):
        # bytes 4..7 of the record hold the route word of the entry, little-endian (record_ok)
        return b4 + 256 * b5 + 65536 * b6 + 16777216 * b7 == sum(((1 << r) if r in e.route else 0) for r in range(24))

    def claim_not_marked_unused(b4, b5, b6, b7, e):
        return b7 != 255

    def claim_same_route_set(b4, b5, b6, b7, e):
        w = b4 + 256 * b5 + 65536 * b6 + 16777216 * b7
        return all((r in e.route) == (((w >> r) & 1) == 1) for r in range(24))


# ---- load_routing_tables: one chip of the loop (fragment) -------------------------------------------------------------------
from pyvc.values import ListV as _ListV10, NONE as _NONE10, TRec as _TRec10   # noqa: E402


def _load_entries_ext(E, obj, args, kwargs, st, node):
    """load_routing_table_entries(table, x=, y=, app_id=) (its own contract above): the call is recorded as given"""
    s = st.copy()
    s.trace = _ListV10(s.trace.items + (("load_entries",) + tuple(args) + tuple(sorted(kwargs.items())),))
    return [(s, _NONE10, None)]


@contract("rig/machine_control/machine_controller.py::MachineController.load_routing_tables@forbody:0")
class LoadRoutingTablesStep:
    """each chip's table is loaded onto THAT chip, for the application named in the call - the chip comes from the dictionary
    key and is passed explicitly, so no enclosing context can redirect it"""
    properties = ("C10",)
    params = dict(self=_TRec10("MachineController"), x=TInt(0, 255), y=TInt(0, 255), table=TInt(), app_id=TInt(0, 255))
    fragment_result = ()
    fragment_head = "for (x, y), table in iteritems(routing_tables):"
    externals = {"MachineController.load_routing_table_entries": _load_entries_ext}
    assumptions = ["load_routing_table_entries is recorded here (its own contract); the table is an opaque identity"]

    def native(x):
        raise __import__("pyvc.replay", fromlist=["OutsideHarness"]).OutsideHarness()

    def ensures_this_table_goes_to_this_chip_for_this_application(x, y, table, app_id, _trace):
        return len(_trace) == 1 and _trace[0] == ("load_entries", table, ("app_id", app_id), ("x", x), ("y", y))


# ---- routing_tree_to_tables: one hop of one tree (fragment), and one entry of the tables built from the collected hops -------------
from pyvc.values import TOpt as _TOpt10, TTuple as _TT10, ObjV as _ObjV10   # noqa: E402
import z3 as _z3_10   # noqa: E402

OUTS = TSmallSet(ROUTES)
PAIR = _TRec10("InOutPair", ins=_TRec10("InSet"), outs=OUTS)


def _rs_chip(E, obj, args, kwargs, st, node):
    """route_sets[x, y]: the chip's collection of (key, mask) -> (ins, outs), an opaque object that remembers its chip"""
    return [(st, _ObjV10("ChipRoutes", {"chip": args[0]}), None)]


def _cr_contains(E, obj, args, kwargs, st, node):
    s = st.copy()
    s.trace = _ListV10(s.trace.items + (("has", obj.fields["chip"], args[0]),))
    return [(s, st.env["g_seen_before"], None)]


def _cr_get(E, obj, args, kwargs, st, node):
    s = st.copy()
    s.trace = _ListV10(s.trace.items + (("get", obj.fields["chip"], args[0]),))
    return [(s, st.env["g_pair"], None)]


def _cr_set(E, obj, args, kwargs, st, node):
    s = st.copy()
    s.trace = _ListV10(s.trace.items + (("new_entry", obj.fields["chip"], args[0], args[1]),))
    return [(s, _NONE10, None)]


def _ins_add(E, obj, args, kwargs, st, node):
    s = st.copy()
    s.trace = _ListV10(s.trace.items + (("in_added", args[0]),))
    return [(s, _NONE10, None)]


def _pair_new(E, obj, args, kwargs, st, node):
    from pyvc.values import LitSet, EngineError
    ins = args[0]
    if not (isinstance(ins, LitSet) and len(ins.items) == 1 and ins.conds is None):
        raise EngineError("InOutPair(ins, ...) with ins other than a one-element set literal")
    return [(st, _ObjV10("InOutPairNew", {"only_in": ins.items[0], "outs": args[1]}), None)]


@contract("rig/routing_table/utils.py::routing_tree_to_tables@forbody:1")
class TreeHopToRouteSet:
    """one hop of a tree: on the hop's own chip, under the net's own (key, mask), the direction the packet ARRIVES from is the
    opposite of the link it was sent over (None at the source); a chip first seen for this key gets an entry with exactly
    that arrival direction and exactly the hop's outgoing directions; a chip seen before (another tree with the same key,
    or another branch) must leave by exactly the same directions - otherwise MultisourceRouteError naming key, mask and
    chip - and then only gains the arrival direction"""
    properties = ("C10", "C01")
    params = dict(direction=_TOpt10(TInt(0, 5)), x=TInt(0, 255), y=TInt(0, 255), out_directions=OUTS, key=TInt(0, 2 ** 32 - 1), mask=TInt(0, 2 ** 32 - 1),
                  route_sets=_TRec10("RouteSets"), InOutPair=_TRec10("PairClass"), g_seen_before=TBool(), g_pair=PAIR)
    fragment_result = ()
    fragment_head = "for direction, (x, y), out_directions in routing_tree.traverse():"
    externals = {"RouteSets.__getitem__": _rs_chip, "ChipRoutes.__contains__": _cr_contains, "ChipRoutes.__getitem__": _cr_get,
                 "ChipRoutes.__setitem__": _cr_set, "InSet.add": _ins_add, "PairClass.__call__": _pair_new}
    raises = {"MultisourceRouteError": None}
    options = {"int_class": "rig/routing_table/entries.py::Routes", "no_merge": True}
    assumptions = ["the per-chip collections are opaque (look-ups, additions and new entries are recorded; whether the key was seen before on this chip "
                   "and what it then holds are ghosts); InOutPair(ins, outs) is the record of its arguments"]

    def native(x):
        raise __import__("pyvc.replay", fromlist=["OutsideHarness"]).OutsideHarness()

    def raises_MultisourceRouteError(x, y, key, mask, out_directions, g_seen_before, g_pair, exc_args):
        return (g_seen_before and any((r in g_pair.outs) != (r in out_directions) for r in ROUTES)
                and exc_args == (key, mask, (x, y)))

    def ensures_first_visit_makes_the_entry_and_a_later_one_only_adds_the_arrival_direction(direction, x, y, key, mask, out_directions, g_seen_before, g_pair, _trace):
        arrives = None if direction is None else (direction + 3) % 6
        n = len(_trace)
        return (n >= 1 and _trace[0] == ("has", (x, y), (key, mask))
                and implies(not g_seen_before,
                            n == 2 and _trace[1][0] == "new_entry" and _trace[1][1] == (x, y) and _trace[1][2] == (key, mask)
                            and _trace[1][3].only_in == arrives and all((r in _trace[1][3].outs) == (r in out_directions) for r in ROUTES))
                and implies(g_seen_before,
                            all((r in g_pair.outs) == (r in out_directions) for r in ROUTES)
                            and _trace[n - 1] == ("in_added", arrives)
                            and all(t[0] == "get" and t[1] == (x, y) and t[2] == (key, mask) for t in _trace[1:n - 1])))


# ---- routing_tree_to_tables: the table entry made from what was collected for one (key, mask) on one chip (fragment) -----------------


def _rt_chip(E, obj, args, kwargs, st, node):
    return [(st, _ObjV10("ChipTable", {"chip": args[0]}), None)]


def _rt_append(E, obj, args, kwargs, st, node):
    s = st.copy()
    s.trace = _ListV10(s.trace.items + (("entry", obj.fields["chip"], args[0]),))
    return [(s, _NONE10, None)]


@contract("rig/routing_table/utils.py::routing_tree_to_tables@forbody:3")
class CollectedHopsToEntry:
    """what was collected for one (key, mask) on one chip becomes ONE entry of that chip's table: the route is exactly the collected
    outgoing directions, the sources exactly the collected arrival directions, under exactly that key and mask"""
    properties = ("C10", "C01")
    params = dict(x=TInt(0, 255), y=TInt(0, 255), key=TInt(0, 2 ** 32 - 1), mask=TInt(0, 2 ** 32 - 1),
                  route=_TRec10("InOutPair", ins=TSmallSet([None] + ROUTES), outs=TSmallSet(ROUTES)), routing_tables=_TRec10("Tables"))
    fragment_result = ()
    fragment_head = "for (key, mask), route in iteritems(routes):"
    externals = {"Tables.__getitem__": _rt_chip, "ChipTable.append": _rt_append}
    options = {"int_class": "rig/routing_table/entries.py::Routes"}

    def native(x):
        raise __import__("pyvc.replay", fromlist=["OutsideHarness"]).OutsideHarness()

    def ensures_one_entry_with_exactly_the_collected_directions(x, y, key, mask, route, _trace):
        e = _trace[0][2]
        return (len(_trace) == 1 and _trace[0][0] == "entry" and _trace[0][1] == (x, y) and e.key == key and e.mask == mask
                and all((r in e.route) == (r in route.outs) for r in ROUTES)
                and all((r in e.sources) == (r in route.ins) for r in [None] + ROUTES))

from rig.place_and_route.routing_tree import RoutingTree    # noqa: E402,F401
from pyvc.values import TOpt, TTuple, TList   # noqa: E402

# ---- RoutingTree.traverse: one node taken from the queue (fragment) ------------------------------------------------------------------
SUBTREE = _TRec10("RoutingTree", ident=TInt())
LEAF = _TRec10("Vertex", ident=TInt())


def _tq_popleft(E, obj, args, kwargs, st, node):
    return [(st, (st.env["g_direction"], st.env["g_node"]), None)]


def _tq_append(E, obj, args, kwargs, st, node):
    s = st.copy()
    s.trace = _ListV10(s.trace.items + (("queued", args[0][0], args[0][1].fields["ident"]),))
    return [(s, _NONE10, None)]


@contract("rig/place_and_route/routing_tree.py::RoutingTree.traverse@whilebody:0")
class TraverseNode:
    """one node (here with a leaf that may have no route LISTED FIRST, then a subtree, then a leaf with a route): the hop yielded is (the direction the node was
    reached by, its chip, the set of the directions of ALL its children that have one - subtrees and leaves alike); exactly the
    children that are subtrees are queued, each with its own direction"""
    properties = ("C10", "C01")
    params = dict(to_visit=_TRec10("Queue"), g_direction=TOpt(TInt(0, 5)),
                  g_node=_TRec10("RoutingTree", chip=TTuple(TInt(0, 255), TInt(0, 255)),
                                 children=TList(TTuple(TOpt(TInt(0, 23)), LEAF), TTuple(TInt(0, 5), SUBTREE), TTuple(TInt(6, 23), LEAF))))
    fragment_result = ()
    fragment_head = "while to_visit:"
    externals = {"Queue.popleft": _tq_popleft, "Queue.append": _tq_append}
    yields = TTuple(TOpt(TInt(0, 5)), TTuple(TInt(0, 255), TInt(0, 255)), TSmallSet(ROUTES))
    options = {"int_class": "rig/routing_table/entries.py::Routes", "no_merge": True}
    assumptions = ["the queue is opaque (what is taken from it is a ghost, what is put on it is recorded); the node has three children of the three kinds"]

    def native(to_visit):
        raise __import__("pyvc.replay", fromlist=["OutsideHarness"]).OutsideHarness()

    def ensures_yields_the_hop_with_every_childs_direction_and_queues_the_subtrees(g_direction, g_node, _trace, _yielded):
        c = g_node.children
        hop = _yielded[0]
        return (len(_yielded) == 1 and hop[0] == g_direction and hop[1] == g_node.chip
                and all((r in hop[2]) == (r == c[1][0] or r == c[2][0] or (c[0][0] is not None and r == c[0][0])) for r in ROUTES)
                and len(_trace) == 1 and _trace[0] == ("queued", c[1][0], c[1][1].ident))
