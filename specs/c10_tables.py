"""C10 -- decoding of a router entry read back from a chip
(rig/machine_control/machine_controller.py::unpack_routing_table_entry).  Record layout
"<2H 3I": index, free (app id | core<<8), route word, key, mask; an unused entry has the top
byte of its route word set to 0xFF.  Tree-to-table conversion and loading are decided by
bounded/c10_tables.py against a router model."""
from pyvc.spec import contract, lemma
from pyvc.values import TInt, TSeq, ObjV
from pyvc.speclib import implies, iff, select, seq_len, bits

BYTES = TSeq(TInt(0, 255), "bytes")


def _rte(E, args, kwargs, st, node):
    names = ["route", "key", "mask", "sources"]
    f = dict(zip(names, args))
    f.update(kwargs)
    return [(st, ObjV("RoutingTableEntry", f))]


def le16(b, i):
    return select(b, i) + 256 * select(b, i + 1)


def le32(b, i):
    return select(b, i) + 256 * select(b, i + 1) + 65536 * select(b, i + 2) + 16777216 * select(b, i + 3)


@contract("rig/machine_control/machine_controller.py::unpack_routing_table_entry")
class UnpackEntry:
    properties = ("C10",)
    params = dict(packed=BYTES)
    externals = {"class:RoutingTableEntry": _rte}
    raises = {"struct.error": None}

    def raises_struct__error(packed):
        return seq_len(packed) != 16

    def ensures_unused_marker(packed, result):
        return iff(result is None, select(packed, 7) == 255)

    def ensures_route_bits_key_mask_and_owner(packed, result):
        return result is None or (
            all((r in result[0].route) == (bits(le32(packed, 4), r, 1) == 1) for r in range(24))
            and result[0].key == le32(packed, 8) and result[0].mask == le32(packed, 12)
            and result[1] == select(packed, 2) and result[2] == select(packed, 3) % 16)
