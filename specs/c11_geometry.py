"""C11 -- hexagonal mesh / torus shortest paths (rig/geometry.py, rig/links.py,
rig/place_and_route/route/utils.py).  Contracts only; the code is read from /repo."""
from pyvc.spec import contract, lemma
from pyvc.values import TInt, TTuple, TOpt, TSeq, TReal
from pyvc.speclib import implies, forall_range, ite

T3 = TTuple(TInt(), TInt(), TInt())
T2 = TTuple(TInt(), TInt())


# ---- spec functions -------------------------------------------------------------------------
def hexd(dx, dy):
    """Graph distance from (0,0) to (dx,dy) in the infinite hexagonal mesh whose links are
    (+-1,0), (0,+-1), +-(1,1) -- shown to be the graph distance by lemmas hexd_lipschitz
    (lower bound for every walk) and the constructive upper bound (shortest_mesh_path)."""
    return max(abs(dx), abs(dy), abs(dx - dy))


def l1(v):
    return abs(v[0]) + abs(v[1]) + abs(v[2])


def torus_candidates_min(x, y, w, h):
    """min over the four lifts (x,y), (x-w,y), (x,y-h), (x-w,y-h) of hexd, for 0<=x<w, 0<=y<h"""
    return min(hexd(x, y), hexd(x - w, y), hexd(x, y - h), hexd(x - w, y - h))


def proj_x(s, d):
    return (d[0] - s[0]) - (d[2] - s[2])


def proj_y(s, d):
    return (d[1] - s[1]) - (d[2] - s[2])


# ---- contracts ------------------------------------------------------------------------------
@contract("rig/geometry.py::to_xyz")
class ToXyz:
    properties = ("C11",)
    params = dict(xy=T2)

    def ensures_same_point(xy, result):
        return result == (xy[0], xy[1], 0)


@contract("rig/geometry.py::minimise_xyz")
class MinimiseXyz:
    properties = ("C11",)
    params = dict(xyz=T3)

    def ensures_same_point(xyz, result):
        # subtracting (m,m,m) does not move the point: x-z and y-z are preserved
        return (result[0] - result[2] == xyz[0] - xyz[2]) and (result[1] - result[2] == xyz[1] - xyz[2])

    def ensures_minimal(xyz, result):
        # the median component is zero, hence |x|+|y|+|z| is the hexagonal distance
        return l1(result) == hexd(xyz[0] - xyz[2], xyz[1] - xyz[2])


@contract("rig/geometry.py::shortest_mesh_path_length")
class ShortestMeshPathLength:
    properties = ("C11",)
    params = dict(source=T3, destination=T3)

    def ensures_graph_distance(source, destination, result):
        return result == hexd(proj_x(source, destination), proj_y(source, destination))


@contract("rig/geometry.py::shortest_mesh_path")
class ShortestMeshPath:
    properties = ("C11",)
    params = dict(source=T3, destination=T3)

    def ensures_leads_to_destination(source, destination, result):
        return (result[0] - result[2] == proj_x(source, destination)
                and result[1] - result[2] == proj_y(source, destination))

    def ensures_has_shortest_length(source, destination, result):
        return l1(result) == hexd(proj_x(source, destination), proj_y(source, destination))


@contract("rig/geometry.py::shortest_torus_path_length")
class ShortestTorusPathLength:
    properties = ("C11",)
    params = dict(source=T3, destination=T3, width=TInt(), height=TInt())

    def requires(source, destination, width, height):
        return width >= 1 and height >= 1

    def ensures_graph_distance(source, destination, width, height, result):
        return result == torus_candidates_min(proj_x(source, destination) % width,
                                              proj_y(source, destination) % height, width, height)


@contract("rig/geometry.py::shortest_torus_path")
class ShortestTorusPath:
    properties = ("C11",)
    params = dict(source=T3, destination=T3, width=TInt(), height=TInt())

    def requires(source, destination, width, height):
        return width >= 1 and height >= 1

    def ensures_has_shortest_length(source, destination, width, height, result):
        return l1(result) == torus_candidates_min(proj_x(source, destination) % width,
                                                  proj_y(source, destination) % height, width, height)

    def ensures_leads_to_destination(source, destination, width, height, result, _rand):
        # "result leads to the destination modulo (width, height)" is stated with an explicit
        # witness for the multiple (SMT solvers do not find k in  a == k*w  on their own): minus
        # the wrap quotient, minus one if a wrapping approach was chosen, plus the random number
        # of spirals (the 5th random draw, if any).  a == k*w for an integer k  <=>  a % w == 0.
        ax = result[0] - result[2] - proj_x(source, destination)
        ay = result[1] - result[2] - proj_y(source, destination)
        qx = proj_x(source, destination) // width
        qy = proj_y(source, destination) // height
        r = _rand[4] if len(_rand) > 4 else 0
        return ((ax == -qx * width or ax == (-qx - 1) * width
                 or ax == (r - qx) * width or ax == (r - qx - 1) * width)
                and (ay == -qy * height or ay == (-qy - 1) * height
                     or ay == (r - qy) * height or ay == (r - qy - 1) * height))


# ---- code-independent lemmas ----------------------------------------------------------------
@lemma("hexd_lipschitz")
class HexdLipschitz:
    """One hop changes hexd by at most one and hexd(0,0)=0: by induction on the number of
    hops, every walk of n hops from a to b has n >= hexd(b-a).  (Lower bound.)"""
    properties = ("C11",)
    params = dict(dx=TInt(), dy=TInt())

    def claim_zero(dx, dy):
        return hexd(0, 0) == 0 and implies(hexd(dx, dy) == 0, dx == 0 and dy == 0)

    def claim_east(dx, dy):
        return hexd(dx + 1, dy) <= hexd(dx, dy) + 1

    def claim_west(dx, dy):
        return hexd(dx - 1, dy) <= hexd(dx, dy) + 1

    def claim_north(dx, dy):
        return hexd(dx, dy + 1) <= hexd(dx, dy) + 1

    def claim_south(dx, dy):
        return hexd(dx, dy - 1) <= hexd(dx, dy) + 1

    def claim_north_east(dx, dy):
        return hexd(dx + 1, dy + 1) <= hexd(dx, dy) + 1

    def claim_south_west(dx, dy):
        return hexd(dx - 1, dy - 1) <= hexd(dx, dy) + 1


@lemma("torus_four_lifts_suffice")
class TorusFourLifts:
    """Torus distance = min over ALL lifts (x+i*w, y+j*h) of hexd.  For 0<=x<w, 0<=y<h no lift
    beats the best of the four lifts i,j in {0,-1}.  The products i*w, j*h are abstracted by the
    integers iw, jh constrained by the case split i=0 / i=-1 / i>=1 / i<=-2."""
    properties = ("C11",)
    params = dict(x=TInt(), y=TInt(), w=TInt(), h=TInt(), iw=TInt(), jh=TInt())

    def assuming(x, y, w, h, iw, jh):
        return (w >= 1 and h >= 1 and 0 <= x < w and 0 <= y < h
                and (iw == 0 or iw == -w or iw >= w or iw <= -2 * w)
                and (jh == 0 or jh == -h or jh >= h or jh <= -2 * h))

    def claim(x, y, w, h, iw, jh):
        return hexd(x + iw, y + jh) >= torus_candidates_min(x, y, w, h)


# ---- links ----------------------------------------------------------------------------------
from pyvc.values import TConst   # noqa: E402

LINK = TInt(0, 5)


def link_vec(l):
    """The documented direction of each link number (hardware numbering, anticlockwise from east)."""
    return ite(l == 0, (1, 0), ite(l == 1, (1, 1), ite(l == 2, (0, 1),
               ite(l == 3, (-1, 0), ite(l == 4, (-1, -1), (0, -1))))))


def unit(c):
    """a vector component as the code normalises it: wrap-around steps flip sign"""
    return ite(abs(c) > 1, ite(c > 0, -1, 1), c)


@contract("rig/links.py::Links.to_vector")
class LinksToVector:
    properties = ("C11",)
    params = dict(self=LINK)

    def native(self):
        from rig.links import Links
        return Links(self).to_vector()

    def ensures_documented_vector(self, result):
        return result == link_vec(self)


@contract("rig/links.py::Links.opposite")
class LinksOpposite:
    properties = ("C11",)
    params = dict(self=LINK)

    def native(self):
        from rig.links import Links
        return Links(self).opposite

    def ensures_is_a_link(self, result):
        return 0 <= result <= 5

    def ensures_negated_vector(self, result):
        return link_vec(result) == (-link_vec(self)[0], -link_vec(self)[1])


@contract("rig/links.py::Links.from_vector")
class LinksFromVector:
    properties = ("C11",)
    params = dict(cls=TConst("Links"), vector=T2)
    raises = {"KeyError": None}

    def native(vector):
        from rig.links import Links
        return Links.from_vector(vector)

    def raises_KeyError(vector):
        # only the null vector has no direction
        return unit(vector[0]) == 0 and unit(vector[1]) == 0

    def ensures_direction_of_vector(vector, result):
        # for the six proper unit vectors (and their wrap-around forms) the link is the one
        # whose documented vector it is; (1,-1)/(-1,1) only arise on 2xN spirals
        ux = unit(vector[0])
        uy = unit(vector[1])
        return (0 <= result <= 5
                and implies(not (ux == -uy and ux != 0), link_vec(result) == (ux, uy))
                and implies(ux == 1 and uy == -1, result == 4)
                and implies(ux == -1 and uy == 1, result == 1))


@lemma("links_consistent")
class LinksConsistent:
    """from_vector o to_vector = id and opposite is an involution, over the contracts' vocabulary"""
    properties = ("C11",)
    params = dict(l=LINK, m=LINK)

    def claim_vectors_distinct(l, m):
        return implies(link_vec(l) == link_vec(m), l == m)

    def claim_opposite_formula(l, m):
        return implies(link_vec(m) == (-link_vec(l)[0], -link_vec(l)[1]), m == (l + 3) % 6)


# ---- longest dimension first ----------------------------------------------------------------
from pyvc.speclib import select, seq_len   # noqa: E402

STEP = TTuple(LINK, T2)


def wrapc(v, m):
    return v if m is None else v % m


def step_ok(px, py, entry, width, height):
    """entry = (direction, (x, y)) is the chip reached from (px, py) over link `direction`"""
    d = entry[0]
    return (0 <= d <= 5
            and entry[1][0] == wrapc(px + link_vec(d)[0], width)
            and entry[1][1] == wrapc(py + link_vec(d)[1], height))


def dir_of(dimension, sign):
    return ite(dimension == 0, ite(sign > 0, 0, 3),
               ite(dimension == 1, ite(sign > 0, 2, 5), ite(sign > 0, 4, 1)))


def prev_x(seq, i, first, sx):
    return sx if i == first else select(seq, i - 1)[1][0]


def prev_y(seq, i, first, sy):
    return sy if i == first else select(seq, i - 1)[1][1]


@contract("rig/place_and_route/route/utils.py::longest_dimension_first")
class LongestDimensionFirst:
    properties = ("C11",)
    params = dict(vector=T3, start=T2, width=TOpt(TInt(1, None)), height=TOpt(TInt(1, None)))
    result = TSeq(STEP)
    options = {"var_shapes": {"out": TSeq(STEP)}, "int_class": "rig/links.py::Links"}
    loop_headers = {1: "for _ in range(abs(magnitude)):"}

    # inner loop (ordinal 1): `abs(magnitude)` steps in one direction
    def inv_1_length(out, pre_out, _k):
        return seq_len(out) == seq_len(pre_out) + _k

    def inv_1_prefix_unchanged(out, pre_out):
        return forall_range(0, seq_len(pre_out), lambda i: select(out, i) == select(pre_out, i))

    def inv_1_position(out, pre_x, pre_y, x, y, _k):
        return (x == (pre_x if _k == 0 else select(out, seq_len(out) - 1)[1][0])
                and y == (pre_y if _k == 0 else select(out, seq_len(out) - 1)[1][1]))

    def inv_1_unwrapped_position(pre_x, pre_y, x, y, _k, dimension, sign, width, height):
        ds = _k if sign > 0 else -_k
        return implies(width is None and height is None,
                       x == pre_x + ite(dimension == 0, ds, ite(dimension == 1, 0, -ds))
                       and y == pre_y + ite(dimension == 0, 0, ite(dimension == 1, ds, -ds)))

    def ensures_one_entry_per_hop(vector, result):
        return seq_len(result) == abs(vector[0]) + abs(vector[1]) + abs(vector[2])

    # ghost assertion at the append: the entry appended in this iteration is the chip reached from
    # the position held at the start of the iteration over the link it is labelled with.  With
    # inv_1_position (the position held is that of the last entry, or the start) this gives:
    # every entry is adjacent to its predecessor by its label, modulo (width, height).
    ghost_asserts = {"out.append((direction, (x, y)))": ["ghost_step_follows_its_link"]}

    def ghost_step_follows_its_link(iter_x, iter_y, dx, dy, direction, x, y, width, height, dimension, sign):
        # = step_ok(iter_x, iter_y, (direction, (x, y)), width, height), written with the step
        # (dx, dy) so that the wrapped sums are the very terms the code computes
        return (0 <= direction <= 5 and link_vec(direction) == (dx, dy)
                and x == wrapc(iter_x + dx, width) and y == wrapc(iter_y + dy, height)
                and direction == dir_of(dimension, sign))

    def ensures_last_entry_is_where_the_walk_ends(vector, start, result):
        # (used with the ghost assertion: the chain of adjacent steps ends at the last entry)
        return implies(seq_len(result) == 0, vector == (0, 0, 0))

    def ensures_ends_at_destination_unwrapped(vector, start, width, height, result):
        n = seq_len(result)
        return implies(width is None and height is None,
                       (start[0] if n == 0 else select(result, n - 1)[1][0]) == start[0] + vector[0] - vector[2]
                       and (start[1] if n == 0 else select(result, n - 1)[1][1]) == start[1] + vector[1] - vector[2])


@lemma("wrapped_walk_is_wrap_of_walk")
class WrappedWalk:
    """Wrapping after every step equals wrapping once at the end (step of the induction):
    ((a mod w) + d) mod w == (a + d) mod w.  With ensures_every_step_follows_its_link this
    extends ensures_ends_at_destination_unwrapped to tori."""
    properties = ("C11",)
    params = dict(a=TInt(), d=TInt(), w=TInt(1, None))

    def claim(a, d, w):
        return ((a % w) + d) % w == (a + d) % w


# ---- concentric hexagons -------------------------------------------------------------------------------------
def ring_point(r, s, k):
    """k-th point (0 <= k < r) of side s (0..5) of the ring of radius r around (0,0): the ring starts at
    (0,-r) and its sides run north-east, north, west, south-west, south, east"""
    return ite(s == 0, (k, k - r), ite(s == 1, (r, k), ite(s == 2, (r - k, r),
               ite(s == 3, (-k, r - k), ite(s == 4, (-r, -k), (k - r, -r))))))


def side_of(dx, dy):
    return ite(dx == 1 and dy == 1, 0, ite(dx == 0 and dy == 1, 1, ite(dx == -1 and dy == 0, 2,
               ite(dx == -1 and dy == -1, 3, ite(dx == 0 and dy == -1, 4, 5)))))


@contract("rig/geometry.py::concentric_hexagons")
class ConcentricHexagons:
    """The generator yields the centre, then for r = 1..radius the 6r points ring_point(r, s, k) in the
    order s = 0..5, k = 0..r-1 (ghost assertion at the yield).  With the three lemmas below - every
    ring point is at distance exactly r, ring points are pairwise distinct, every point at distance r
    is a ring point - each chip within the radius is yielded exactly once, nearest ring first."""
    properties = ("C11",)
    params = dict(radius=TInt(0, None), start=T2)
    options = {"opaque_yields": True}
    loop_headers = {0: "for r in range(1, radius + 1):", 2: "for _ in range(r):"}

    def native(radius, start):
        from rig.geometry import concentric_hexagons
        if radius > 60:
            raise __import__("pyvc.replay", fromlist=["OutsideHarness"]).OutsideHarness()
        return {"__native__": True, "result": None, "points": [tuple(p) for p in concentric_hexagons(radius, tuple(start))]}

    def native_check(inputs, out):
        """the ghost assertion on the points the real generator produced"""
        sx, sy = inputs["start"]
        want = [(sx, sy)]
        for r in range(1, inputs["radius"] + 1):
            for s in range(6):
                for k in range(r):
                    px, py = [(k, k - r), (r, k), (r - k, r), (-k, r - k), (-r, -k), (k - r, -r)][s]
                    want.append((sx + px, sy + py))
        return [] if out["points"] == want else ["ghost_yields_the_next_ring_point"]

    def sample_domain(radius):
        return radius <= 8

    def inv_0_at_the_start_of_the_previous_ring(x, y, old_start, _k0):
        # before ring r = _k0 + 1 the walk is back at the first point of ring _k0
        return x == old_start[0] and y == old_start[1] - _k0

    def inv_2_along_one_side(x, y, pre_x, pre_y, dx, dy, _k2):
        return x == pre_x + _k2 * dx and y == pre_y + _k2 * dy

    ghost_asserts = {"yield (x, y)": ["ghost_yields_the_next_ring_point"]}

    def ghost_yields_the_next_ring_point(x, y, old_start, r, dx, dy, loop_k2):
        # the very first yield (no ring yet) is the centre itself
        return ((r is None and x == old_start[0] and y == old_start[1])
                or (r is not None and (x - old_start[0], y - old_start[1]) == ring_point(r, side_of(dx, dy), loop_k2)))


@lemma("ring_points_are_the_points_at_distance_r")
class RingPoints:
    properties = ("C11",)
    params = dict(r=TInt(1, None), s=TInt(0, 5), k=TInt(0, None), s2=TInt(0, 5), k2=TInt(0, None), px=TInt(), py=TInt())

    def assuming(r, s, k, s2, k2, px, py):
        return k < r and k2 < r

    def claim_every_ring_point_is_at_distance_r(r, s, k, s2, k2, px, py):
        return hexd(ring_point(r, s, k)[0], ring_point(r, s, k)[1]) == r

    def claim_ring_points_are_pairwise_distinct(r, s, k, s2, k2, px, py):
        return implies(ring_point(r, s, k) == ring_point(r, s2, k2), s == s2 and k == k2)

    def claim_every_point_at_distance_r_is_a_ring_point(r, s, k, s2, k2, px, py):
        # witness: the side is decided by the sextant, the position along it by one coordinate
        return implies(hexd(px, py) == r,
                       (px >= 0 and py < 0 and px - py == r and (px, py) == ring_point(r, 0, px))
                       or (px == r and 0 <= py < r and (px, py) == ring_point(r, 1, py))
                       or (py == r and 0 < px <= r and (px, py) == ring_point(r, 2, r - px))
                       or (px <= 0 and py > 0 and py - px == r and (px, py) == ring_point(r, 3, -px))
                       or (px == -r and -r < py <= 0 and (px, py) == ring_point(r, 4, -py))
                       or (py == -r and -r <= px < 0 and (px, py) == ring_point(r, 5, px + r)))
