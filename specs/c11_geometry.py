"""C11 -- hexagonal mesh / torus shortest paths (rig/geometry.py, rig/links.py,
rig/place_and_route/route/utils.py).  Contracts only; the code is read from /repo."""
from pyvc.spec import contract, lemma
from pyvc.values import TInt, TTuple, TOpt, TSeq, TReal
from pyvc.speclib import implies, forall_range, ite

T3 = TTuple(TInt(), TInt(), TInt())
T2 = TTuple(TInt(), TInt())


# ---- spec functions -------------------------------------------------------------------------
def hexd(dx, dy):
    """Graph distance from (0,0) to (dx,dy) in the infinite hexagonal mesh whose links are
    (+-1,0), (0,+-1), +-(1,1) -- shown to be the graph distance by lemmas hexd_lipschitz
    (lower bound for every walk) and the constructive upper bound (shortest_mesh_path)."""
    return max(abs(dx), abs(dy), abs(dx - dy))


def l1(v):
    return abs(v[0]) + abs(v[1]) + abs(v[2])


def torus_candidates_min(x, y, w, h):
    """min over the four lifts (x,y), (x-w,y), (x,y-h), (x-w,y-h) of hexd, for 0<=x<w, 0<=y<h"""
    return min(hexd(x, y), hexd(x - w, y), hexd(x, y - h), hexd(x - w, y - h))


def proj_x(s, d):
    return (d[0] - s[0]) - (d[2] - s[2])


def proj_y(s, d):
    return (d[1] - s[1]) - (d[2] - s[2])


# ---- contracts ------------------------------------------------------------------------------
@contract("rig/geometry.py::to_xyz")
class ToXyz:
    properties = ("C11",)
    params = dict(xy=T2)

    def ensures_same_point(xy, result):
        return result == (xy[0], xy[1], 0)


@contract("rig/geometry.py::minimise_xyz")
class MinimiseXyz:
    properties = ("C11",)
    params = dict(xyz=T3)

    def ensures_same_point(xyz, result):
        # subtracting (m,m,m) does not move the point: x-z and y-z are preserved
        return (result[0] - result[2] == xyz[0] - xyz[2]) and (result[1] - result[2] == xyz[1] - xyz[2])

    def ensures_minimal(xyz, result):
        # the median component is zero, hence |x|+|y|+|z| is the hexagonal distance
        return l1(result) == hexd(xyz[0] - xyz[2], xyz[1] - xyz[2])


@contract("rig/geometry.py::shortest_mesh_path_length")
class ShortestMeshPathLength:
    properties = ("C11",)
    params = dict(source=T3, destination=T3)

    def ensures_graph_distance(source, destination, result):
        return result == hexd(proj_x(source, destination), proj_y(source, destination))


@contract("rig/geometry.py::shortest_mesh_path")
class ShortestMeshPath:
    properties = ("C11",)
    params = dict(source=T3, destination=T3)

    def ensures_leads_to_destination(source, destination, result):
        return (result[0] - result[2] == proj_x(source, destination)
                and result[1] - result[2] == proj_y(source, destination))

    def ensures_has_shortest_length(source, destination, result):
        return l1(result) == hexd(proj_x(source, destination), proj_y(source, destination))


@contract("rig/geometry.py::shortest_torus_path_length")
class ShortestTorusPathLength:
    properties = ("C11",)
    params = dict(source=T3, destination=T3, width=TInt(), height=TInt())

    def requires(source, destination, width, height):
        return width >= 1 and height >= 1

    def ensures_graph_distance(source, destination, width, height, result):
        return result == torus_candidates_min(proj_x(source, destination) % width,
                                              proj_y(source, destination) % height, width, height)


@contract("rig/geometry.py::shortest_torus_path")
class ShortestTorusPath:
    properties = ("C11",)
    params = dict(source=T3, destination=T3, width=TInt(), height=TInt())

    def requires(source, destination, width, height):
        return width >= 1 and height >= 1

    def ensures_has_shortest_length(source, destination, width, height, result):
        return l1(result) == torus_candidates_min(proj_x(source, destination) % width,
                                                  proj_y(source, destination) % height, width, height)

    def ensures_leads_to_destination(source, destination, width, height, result, _rand):
        # "result leads to the destination modulo (width, height)" is stated with an explicit
        # witness for the multiple (SMT solvers do not find k in  a == k*w  on their own): minus
        # the wrap quotient, minus one if a wrapping approach was chosen, plus the random number
        # of spirals (the 5th random draw, if any).  a == k*w for an integer k  <=>  a % w == 0.
        ax = result[0] - result[2] - proj_x(source, destination)
        ay = result[1] - result[2] - proj_y(source, destination)
        qx = proj_x(source, destination) // width
        qy = proj_y(source, destination) // height
        r = _rand[4] if len(_rand) > 4 else 0
        return ((ax == -qx * width or ax == (-qx - 1) * width
                 or ax == (r - qx) * width or ax == (r - qx - 1) * width)
                and (ay == -qy * height or ay == (-qy - 1) * height
                     or ay == (r - qy) * height or ay == (r - qy - 1) * height))


# ---- code-independent lemmas ----------------------------------------------------------------
@lemma("hexd_lipschitz")
class HexdLipschitz:
    """One hop changes hexd by at most one and hexd(0,0)=0: by induction on the number of
    hops, every walk of n hops from a to b has n >= hexd(b-a).  (Lower bound.)"""
    properties = ("C11",)
    params = dict(dx=TInt(), dy=TInt())

    def claim_zero(dx, dy):
        return hexd(0, 0) == 0 and implies(hexd(dx, dy) == 0, dx == 0 and dy == 0)

    def claim_east(dx, dy):
        return hexd(dx + 1, dy) <= hexd(dx, dy) + 1

    def claim_west(dx, dy):
        return hexd(dx - 1, dy) <= hexd(dx, dy) + 1

    def claim_north(dx, dy):
        return hexd(dx, dy + 1) <= hexd(dx, dy) + 1

    def claim_south(dx, dy):
        return hexd(dx, dy - 1) <= hexd(dx, dy) + 1

    def claim_north_east(dx, dy):
        return hexd(dx + 1, dy + 1) <= hexd(dx, dy) + 1

    def claim_south_west(dx, dy):
        return hexd(dx - 1, dy - 1) <= hexd(dx, dy) + 1


@lemma("torus_four_lifts_suffice")
class TorusFourLifts:
    """Torus distance = min over ALL lifts (x+i*w, y+j*h) of hexd.  For 0<=x<w, 0<=y<h no lift
    beats the best of the four lifts i,j in {0,-1}.  The products i*w, j*h are abstracted by the
    integers iw, jh constrained by the case split i=0 / i=-1 / i>=1 / i<=-2."""
    properties = ("C11",)
    params = dict(x=TInt(), y=TInt(), w=TInt(), h=TInt(), iw=TInt(), jh=TInt())

    def assuming(x, y, w, h, iw, jh):
        return (w >= 1 and h >= 1 and 0 <= x < w and 0 <= y < h
                and (iw == 0 or iw == -w or iw >= w or iw <= -2 * w)
                and (jh == 0 or jh == -h or jh >= h or jh <= -2 * h))

    def claim(x, y, w, h, iw, jh):
        return hexd(x + iw, y + jh) >= torus_candidates_min(x, y, w, h)
