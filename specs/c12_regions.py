"""C12 -- flood-fill region words (rig/machine_control/regions.py)."""
from pyvc.spec import contract, lemma
from pyvc.values import TInt, TBV
from pyvc.speclib import implies, iff, forall_keys

COORD = TBV(40, 0, 255)
LEVEL = TBV(40, 0, 3)
WORD = TBV(40, 0, 0xffffffff)


def selects(region, cx, cy):
    """The documented meaning of a region word (SC&MP flood-fill / 'Managing Big SpiNNaker
    Machines'): bits 31:24 and 23:18 give the block's base x and y, bits 17:16 the level, bits 15:0
    select sub-blocks; level l blocks are 4**(4-l) chips square with 4x4 sub-blocks."""
    lvl = (region >> 16) & 3
    s = 6 - 2 * lvl
    m = 0xff ^ ((4 << s) - 1)
    return (((cx & m) == ((region >> 24) & 0xff))
            and ((cy & m) == ((region >> 16) & 0xfc))
            and (((region >> (((cx >> s) & 3) + 4 * ((cy >> s) & 3))) & 1) == 1))


@contract("rig/machine_control/regions.py::get_region_for_chip")
class GetRegionForChip:
    properties = ("C12",)
    bv = 40
    params = dict(x=COORD, y=COORD, level=LEVEL)

    def ensures_fits_a_word(x, y, level, result):
        return 0 <= result <= 0xffffffff

    def ensures_names_the_level(x, y, level, result):
        return ((result >> 16) & 3) == level

    def ensures_selects_the_chip(x, y, level, result):
        return selects(result, x, y)

    def ensures_exactly_one_subblock(x, y, level, result):
        b = result & 0xffff
        return b != 0 and (b & (b - 1)) == 0

    def ensures_single_chip_word_selects_that_chip_only(x, y, level, result):
        return implies(level == 3, forall_keys(lambda cx, cy: implies(
            cx <= 255 and cy <= 255 and selects(result, cx, cy), cx == x and cy == y)))


@lemma("region_words_of_one_block_or_to_the_union")
class RegionUnion:
    """words with equal bits 31:16 (same block, same level) OR together to the union of what
    they select -- the tree accumulates sub-block bits this way"""
    properties = ("C12",)
    bv = 40
    params = dict(a=WORD, b=WORD, cx=COORD, cy=COORD)

    def assuming(a, b, cx, cy):
        return (a >> 16) == (b >> 16)

    def claim(a, b, cx, cy):
        return iff(selects(a | b, cx, cy), selects(a, cx, cy) or selects(b, cx, cy))


# ---- RegionCoreTree.add_core: the LOCAL step at one node of the tree (one contract per level: scale, shift and level are the
# ---- constants RegionCoreTree.__init__ gives a node of that level), the recursive call on the child used by its contract ------------
from pyvc.values import TRec, TSeq, TConst, TBool, ListV, NONE, ObjV as _ObjV   # noqa: E402
from pyvc.speclib import select, seq_len, forall_range, ite   # noqa: E402

HALF = TBV(40, 0, 0xffff)
CORE = TBV(40, -1, 18)


def _sub_get(E, obj, args, kwargs, st, node):
    """self.subregions[i]: the child for that sub-block, or None (ghost g_child_exists); a child made in this call is returned"""
    for t in reversed(st.trace.items):
        if t[0] == "child_stored":
            return [(st, t[2], None)]
    import z3
    has = st.assume(st.env["g_child_exists"])
    no = st.assume(z3.Not(st.env["g_child_exists"]))
    out = []
    if E.feasible(has):
        out.append((has, _ObjV("RegionCoreTree", {"ident": 1}), None))
    if E.feasible(no):
        out.append((no, NONE, None))
    return out


def _sub_set(E, obj, args, kwargs, st, node):
    s = st.copy()
    s.trace = ListV(s.trace.items + (("child_stored", args[0], args[1]),))
    return [(s, NONE, None)]


def _new_node(E, args, kwargs, st, node):
    a = list(args) + [None] * (3 - len(args))
    s = st.copy()
    s.trace = ListV(s.trace.items + (("child_made", kwargs.get("base_x", a[0]), kwargs.get("base_y", a[1]), kwargs.get("level", a[2])),))
    return [(s, _ObjV("RegionCoreTree", {"ident": 2}))]


def _child_add(E, obj, args, kwargs, st, node):
    """the recursive call on the child (this very contract, one level down): recorded; it says whether the child's whole
    block is now selected for the core (ghost g_child_full)"""
    s = st.copy()
    s.trace = ListV(s.trace.items + (("child_add_core",) + tuple(args),))
    return [(s, st.env["g_child_full"], None)]


def _node(level):
    return TRec("RegionCoreTree", base_x=COORD, base_y=COORD, scale=TConst(4 ** (4 - level)), shift=TConst(6 - 2 * level), level=TConst(level),
                locally_selected=TSeq(HALF), subregions=TRec("Subregions"))


def _sub_of(self, x, y, level):
    """index of the sub-block of this node's block that holds chip (x, y): sub-blocks are scale/4 chips square, numbered
    x-index + 4 * y-index (written with the block's own size, not with the shifts the code uses)"""
    q = 4 ** (3 - level)
    return ite(x - self.base_x >= 3 * q, 3, ite(x - self.base_x >= 2 * q, 2, ite(x - self.base_x >= q, 1, 0))) + \
        4 * ite(y - self.base_y >= 3 * q, 3, ite(y - self.base_y >= 2 * q, 2, ite(y - self.base_y >= q, 1, 0)))


def _native_add_core(self, x, y, p, g_child_exists, g_child_full, level):
    """the REAL RegionCoreTree.add_core on a real node of that level with the given selections; its children are stand-ins that
    record the recursive call and answer with the ghost (the child one level down is this same method: its own contract)"""
    import array
    import types
    import rig.machine_control.regions as R
    from pyvc.replay import OutsideHarness
    sel = [int(v) for v in self.locally_selected]
    if len(sel) != 18 or not all(0 <= v <= 0xffff for v in sel):
        raise OutsideHarness()
    trace = []

    class Child(object):
        def __init__(s, base_x=0, base_y=0, level=0):
            s.made = (base_x, base_y, level)
            trace.append(("child_made", base_x, base_y, level))

        def add_core(s, x_, y_, p_):
            trace.append(("child_add_core", x_, y_, p_))
            return bool(g_child_full)

    class Subs(list):
        def __setitem__(s, i, v):
            trace.append(("child_stored", i, v))
            list.__setitem__(s, i, v)
    node = R.RegionCoreTree(int(self.base_x), int(self.base_y), level)
    node.locally_selected = array.array('H', sel)
    if level < 3:
        existing = Child.__new__(Child)
        node.subregions = Subs([existing if g_child_exists else None] * 16)
    real_cls, R.RegionCoreTree = R.RegionCoreTree, Child
    try:
        try:
            res, raised = real_cls.add_core(node, int(x), int(y), int(p)), None
        except Exception as e:      # noqa
            res, raised = None, type(e).__name__
    finally:
        R.RegionCoreTree = real_cls
    post = types.SimpleNamespace(base_x=node.base_x, base_y=node.base_y, scale=node.scale, shift=node.shift, level=node.level,
                                 locally_selected=list(node.locally_selected))
    return {"__native__": True, "result": res, "raised": raised, "self_post": post, "_trace": trace}


class _AddCoreBase:
    properties = ("C12",)
    bv = 40
    externals = {"Subregions.__getitem__": _sub_get, "Subregions.__setitem__": _sub_set, "class:RegionCoreTree": _new_node,
                 "RegionCoreTree.add_core": _child_add}
    raises = {"ValueError": None}
    assumptions = ["the list of children is opaque (a child exists or not: ghost; storing one is recorded); the recursive call on the child is recorded "
                   "and answers with a ghost; blocks are aligned to their size (base_x, base_y multiples of scale), as RegionCoreTree creates them"]


@contract("rig/machine_control/regions.py::RegionCoreTree.add_core", variant="level0")
class AddCoreLevel0(_AddCoreBase):
    """add_core at a node of level 0 (a block of 256x256 chips): refused exactly outside the block / the cores 0..17; the core's bit
    of the sub-block holding the chip is set at once in a leaf, and above a leaf exactly when the child - made on demand for
    exactly that sub-block, one level down - reports its whole block selected; a sub-block already selected whole is left
    alone; a node (other than the root) whose 16 sub-blocks are all selected for the core hands the selection up: clears it and
    answers True; no other core's selection is touched"""
    properties = ("C12",)
    bv = 40
    externals = _AddCoreBase.externals
    raises = {"ValueError": None}
    assumptions = _AddCoreBase.assumptions
    params = dict(self=_node(0), x=TBV(40, -1, 256), y=TBV(40, -1, 256), p=CORE, g_child_exists=TBool(), g_child_full=TBool())
    options = {"no_merge": True}

    def native(self, x, y, p, g_child_exists, g_child_full):
        return _native_add_core(self, x, y, p, g_child_exists, g_child_full, 0)

    def requires(self):
        return (seq_len(self.locally_selected) == 18 and (self.base_x & (self.scale - 1)) == 0 and (self.base_y & (self.scale - 1)) == 0
                and self.base_x + self.scale <= 256 and self.base_y + self.scale <= 256)

    def raises_ValueError(self, x, y, p, _trace):
        return (not (0 <= p <= 17 and self.base_x <= x < self.base_x + self.scale and self.base_y <= y < self.base_y + self.scale)
                and len(_trace) == 0)

    def ensures_only_inside_the_block(self, x, y, p):
        return 0 <= p <= 17 and self.base_x <= x < self.base_x + self.scale and self.base_y <= y < self.base_y + self.scale

    def ensures_other_cores_untouched(self, self_post, p):
        return (seq_len(self_post.locally_selected) == 18
                and forall_range(0, 18, lambda c: implies(c != p, select(self_post.locally_selected, c) == select(self.locally_selected, c))))

    def ensures_the_right_sub_block_and_child(self, x, y, p, g_child_exists, _trace):
        sub = _sub_of(self, x, y, 0)
        already = (select(self.locally_selected, p) & (1 << sub)) != 0
        descend = 0 != 3 and not already
        n = len(_trace)
        return (implies(not descend, n == 0)
                and implies(descend and g_child_exists, n == 1 and _trace[0] == ("child_add_core", x, y, p))
                and implies(descend and not g_child_exists,
                            n == 3 and _trace[0] == ("child_made", self.base_x + 64 * (sub % 4), self.base_y + 64 * (sub // 4), 0 + 1)
                            and _trace[1][0] == "child_stored" and _trace[1][1] == sub and _trace[2] == ("child_add_core", x, y, p)))

    def ensures_selection_of_this_core(self, self_post, x, y, p, g_child_full, result):
        sub = _sub_of(self, x, y, 0)
        before = select(self.locally_selected, p)
        already = (before & (1 << sub)) != 0
        now = ite(0 == 3 or (not already and g_child_full), before | (1 << sub), before)
        hand_up = now == 0xffff and 0 != 0
        return result == hand_up and select(self_post.locally_selected, p) == ite(hand_up, 0, now)


@contract("rig/machine_control/regions.py::RegionCoreTree.add_core", variant="level1")
class AddCoreLevel1(_AddCoreBase):
    """add_core at a node of level 1 (a block of 64x64 chips): refused exactly outside the block / the cores 0..17; the core's bit
    of the sub-block holding the chip is set at once in a leaf, and above a leaf exactly when the child - made on demand for
    exactly that sub-block, one level down - reports its whole block selected; a sub-block already selected whole is left
    alone; a node (other than the root) whose 16 sub-blocks are all selected for the core hands the selection up: clears it and
    answers True; no other core's selection is touched"""
    properties = ("C12",)
    bv = 40
    externals = _AddCoreBase.externals
    raises = {"ValueError": None}
    assumptions = _AddCoreBase.assumptions
    params = dict(self=_node(1), x=TBV(40, -1, 256), y=TBV(40, -1, 256), p=CORE, g_child_exists=TBool(), g_child_full=TBool())
    options = {"no_merge": True}

    def native(self, x, y, p, g_child_exists, g_child_full):
        return _native_add_core(self, x, y, p, g_child_exists, g_child_full, 1)

    def requires(self):
        return (seq_len(self.locally_selected) == 18 and (self.base_x & (self.scale - 1)) == 0 and (self.base_y & (self.scale - 1)) == 0
                and self.base_x + self.scale <= 256 and self.base_y + self.scale <= 256)

    def raises_ValueError(self, x, y, p, _trace):
        return (not (0 <= p <= 17 and self.base_x <= x < self.base_x + self.scale and self.base_y <= y < self.base_y + self.scale)
                and len(_trace) == 0)

    def ensures_only_inside_the_block(self, x, y, p):
        return 0 <= p <= 17 and self.base_x <= x < self.base_x + self.scale and self.base_y <= y < self.base_y + self.scale

    def ensures_other_cores_untouched(self, self_post, p):
        return (seq_len(self_post.locally_selected) == 18
                and forall_range(0, 18, lambda c: implies(c != p, select(self_post.locally_selected, c) == select(self.locally_selected, c))))

    def ensures_the_right_sub_block_and_child(self, x, y, p, g_child_exists, _trace):
        sub = _sub_of(self, x, y, 1)
        already = (select(self.locally_selected, p) & (1 << sub)) != 0
        descend = 1 != 3 and not already
        n = len(_trace)
        return (implies(not descend, n == 0)
                and implies(descend and g_child_exists, n == 1 and _trace[0] == ("child_add_core", x, y, p))
                and implies(descend and not g_child_exists,
                            n == 3 and _trace[0] == ("child_made", self.base_x + 16 * (sub % 4), self.base_y + 16 * (sub // 4), 1 + 1)
                            and _trace[1][0] == "child_stored" and _trace[1][1] == sub and _trace[2] == ("child_add_core", x, y, p)))

    def ensures_selection_of_this_core(self, self_post, x, y, p, g_child_full, result):
        sub = _sub_of(self, x, y, 1)
        before = select(self.locally_selected, p)
        already = (before & (1 << sub)) != 0
        now = ite(1 == 3 or (not already and g_child_full), before | (1 << sub), before)
        hand_up = now == 0xffff and 1 != 0
        return result == hand_up and select(self_post.locally_selected, p) == ite(hand_up, 0, now)


@contract("rig/machine_control/regions.py::RegionCoreTree.add_core", variant="level2")
class AddCoreLevel2(_AddCoreBase):
    """add_core at a node of level 2 (a block of 16x16 chips): refused exactly outside the block / the cores 0..17; the core's bit
    of the sub-block holding the chip is set at once in a leaf, and above a leaf exactly when the child - made on demand for
    exactly that sub-block, one level down - reports its whole block selected; a sub-block already selected whole is left
    alone; a node (other than the root) whose 16 sub-blocks are all selected for the core hands the selection up: clears it and
    answers True; no other core's selection is touched"""
    properties = ("C12",)
    bv = 40
    externals = _AddCoreBase.externals
    raises = {"ValueError": None}
    assumptions = _AddCoreBase.assumptions
    params = dict(self=_node(2), x=TBV(40, -1, 256), y=TBV(40, -1, 256), p=CORE, g_child_exists=TBool(), g_child_full=TBool())
    options = {"no_merge": True}

    def native(self, x, y, p, g_child_exists, g_child_full):
        return _native_add_core(self, x, y, p, g_child_exists, g_child_full, 2)

    def requires(self):
        return (seq_len(self.locally_selected) == 18 and (self.base_x & (self.scale - 1)) == 0 and (self.base_y & (self.scale - 1)) == 0
                and self.base_x + self.scale <= 256 and self.base_y + self.scale <= 256)

    def raises_ValueError(self, x, y, p, _trace):
        return (not (0 <= p <= 17 and self.base_x <= x < self.base_x + self.scale and self.base_y <= y < self.base_y + self.scale)
                and len(_trace) == 0)

    def ensures_only_inside_the_block(self, x, y, p):
        return 0 <= p <= 17 and self.base_x <= x < self.base_x + self.scale and self.base_y <= y < self.base_y + self.scale

    def ensures_other_cores_untouched(self, self_post, p):
        return (seq_len(self_post.locally_selected) == 18
                and forall_range(0, 18, lambda c: implies(c != p, select(self_post.locally_selected, c) == select(self.locally_selected, c))))

    def ensures_the_right_sub_block_and_child(self, x, y, p, g_child_exists, _trace):
        sub = _sub_of(self, x, y, 2)
        already = (select(self.locally_selected, p) & (1 << sub)) != 0
        descend = 2 != 3 and not already
        n = len(_trace)
        return (implies(not descend, n == 0)
                and implies(descend and g_child_exists, n == 1 and _trace[0] == ("child_add_core", x, y, p))
                and implies(descend and not g_child_exists,
                            n == 3 and _trace[0] == ("child_made", self.base_x + 4 * (sub % 4), self.base_y + 4 * (sub // 4), 2 + 1)
                            and _trace[1][0] == "child_stored" and _trace[1][1] == sub and _trace[2] == ("child_add_core", x, y, p)))

    def ensures_selection_of_this_core(self, self_post, x, y, p, g_child_full, result):
        sub = _sub_of(self, x, y, 2)
        before = select(self.locally_selected, p)
        already = (before & (1 << sub)) != 0
        now = ite(2 == 3 or (not already and g_child_full), before | (1 << sub), before)
        hand_up = now == 0xffff and 2 != 0
        return result == hand_up and select(self_post.locally_selected, p) == ite(hand_up, 0, now)


@contract("rig/machine_control/regions.py::RegionCoreTree.add_core", variant="level3")
class AddCoreLevel3(_AddCoreBase):
    """add_core at a node of level 3 (a block of 4x4 chips): refused exactly outside the block / the cores 0..17; the core's bit
    of the sub-block holding the chip is set at once in a leaf, and above a leaf exactly when the child - made on demand for
    exactly that sub-block, one level down - reports its whole block selected; a sub-block already selected whole is left
    alone; a node (other than the root) whose 16 sub-blocks are all selected for the core hands the selection up: clears it and
    answers True; no other core's selection is touched"""
    properties = ("C12",)
    bv = 40
    externals = _AddCoreBase.externals
    raises = {"ValueError": None}
    assumptions = _AddCoreBase.assumptions
    params = dict(self=_node(3), x=TBV(40, -1, 256), y=TBV(40, -1, 256), p=CORE, g_child_exists=TBool(), g_child_full=TBool())
    options = {"no_merge": True}

    def native(self, x, y, p, g_child_exists, g_child_full):
        return _native_add_core(self, x, y, p, g_child_exists, g_child_full, 3)

    def requires(self):
        return (seq_len(self.locally_selected) == 18 and (self.base_x & (self.scale - 1)) == 0 and (self.base_y & (self.scale - 1)) == 0
                and self.base_x + self.scale <= 256 and self.base_y + self.scale <= 256)

    def raises_ValueError(self, x, y, p, _trace):
        return (not (0 <= p <= 17 and self.base_x <= x < self.base_x + self.scale and self.base_y <= y < self.base_y + self.scale)
                and len(_trace) == 0)

    def ensures_only_inside_the_block(self, x, y, p):
        return 0 <= p <= 17 and self.base_x <= x < self.base_x + self.scale and self.base_y <= y < self.base_y + self.scale

    def ensures_other_cores_untouched(self, self_post, p):
        return (seq_len(self_post.locally_selected) == 18
                and forall_range(0, 18, lambda c: implies(c != p, select(self_post.locally_selected, c) == select(self.locally_selected, c))))

    def ensures_the_right_sub_block_and_child(self, x, y, p, g_child_exists, _trace):
        sub = _sub_of(self, x, y, 3)
        already = (select(self.locally_selected, p) & (1 << sub)) != 0
        descend = 3 != 3 and not already
        n = len(_trace)
        return (implies(not descend, n == 0)
                and implies(descend and g_child_exists, n == 1 and _trace[0] == ("child_add_core", x, y, p))
                and implies(descend and not g_child_exists,
                            n == 3 and _trace[0] == ("child_made", self.base_x + 1 * (sub % 4), self.base_y + 1 * (sub // 4), 3 + 1)
                            and _trace[1][0] == "child_stored" and _trace[1][1] == sub and _trace[2] == ("child_add_core", x, y, p)))

    def ensures_selection_of_this_core(self, self_post, x, y, p, g_child_full, result):
        sub = _sub_of(self, x, y, 3)
        before = select(self.locally_selected, p)
        already = (before & (1 << sub)) != 0
        now = ite(3 == 3 or (not already and g_child_full), before | (1 << sub), before)
        hand_up = now == 0xffff and 3 != 0
        return result == hand_up and select(self_post.locally_selected, p) == ite(hand_up, 0, now)


# ---- RegionCoreTree.get_regions_and_coremasks: the word of the node's own block, and one core of the grouping loop (fragments) ------
def _cm_get(E, obj, args, kwargs, st, node):
    s = st.copy()
    s.trace = ListV(s.trace.items + (("mask_so_far", args[0]),))
    return [(s, st.env["g_mask_so_far"], None)]


def _cm_set(E, obj, args, kwargs, st, node):
    s = st.copy()
    s.trace = ListV(s.trace.items + (("mask_now", args[0], args[1]),))
    return [(s, NONE, None)]


@contract("rig/machine_control/regions.py::RegionCoreTree.get_regions_and_coremasks@forbody:0")
class GroupCoresBySelection:
    """one core of the grouping loop: a core with a non-empty selection of sub-blocks adds exactly its own bit to the core mask
    kept for exactly that selection (the mask of a selection not seen before starts empty: a defaultdict); a core that selects
    nothing contributes to nothing - for EVERY core number 0..17, core 0 included"""
    properties = ("C12",)
    bv = 40
    params = dict(core=TBV(40, 0, 17), subregions=HALF, subregions_cores=TRec("CoreMasks"), g_mask_so_far=TBV(40, 0, 0x3ffff))
    fragment_result = ()
    fragment_head = "for core, subregions in enumerate(self.locally_selected):"
    externals = {"CoreMasks.__getitem__": _cm_get, "CoreMasks.__setitem__": _cm_set}
    assumptions = ["the defaultdict of core masks is opaque: reading the mask kept for a selection (0 if none yet) and storing it are recorded"]

    def native(core):
        raise __import__("pyvc.replay", fromlist=["OutsideHarness"]).OutsideHarness()

    def ensures_a_selecting_core_adds_its_own_bit_to_the_mask_of_its_selection(core, subregions, g_mask_so_far, _trace):
        return (implies(subregions == 0, len(_trace) == 0)
                and implies(subregions != 0, len(_trace) == 2 and _trace[0] == ("mask_so_far", subregions)
                            and _trace[1] == ("mask_now", subregions, g_mask_so_far | (1 << core))))


@contract("rig/machine_control/regions.py::RegionCoreTree.get_regions_and_coremasks@seq:0:1")
class NodeRegionCode:
    """the word of the node's own block: base x in bits 31:24, base y in bits 23:16 with the level in bits 17:16 (block bases are
    multiples of 4 at every level that has a word), no sub-block selected yet"""
    properties = ("C12",)
    bv = 40
    params = dict(self=TRec("RegionCoreTree", base_x=COORD, base_y=COORD, level=LEVEL))
    fragment_result = ("region_code",)
    fragment_head = "region_code = ..."

    def native(self):
        raise __import__("pyvc.replay", fromlist=["OutsideHarness"]).OutsideHarness()

    def requires(self):
        return (self.base_y & 3) == 0

    def ensures_names_the_block_and_its_level(self, result):
        w = result[0]
        return ((w >> 24) == self.base_x and ((w >> 16) & 0xfc) == self.base_y and ((w >> 16) & 3) == self.level and (w & 0xffff) == 0)


# ---- compress_flood_fill_regions: what is put into the tree, and in which order its pairs come out -----------------------------------
from pyvc.values import ListV as _L12, ObjV as _O12, NONE as _N12, TRec as _TRec12   # noqa: E402


def _tree_add(E, obj, args, kwargs, st, node):
    s = st.copy()
    s.trace = _L12(s.trace.items + (("add_core",) + tuple(args),))
    return [(s, _N12, obj)]


@contract("rig/machine_control/regions.py::compress_flood_fill_regions@forbody:1")
class CompressAddsTheCoreNamed:
    """one core of one chip of the targets: exactly that core of exactly that chip is added to the tree (once)"""
    properties = ("C12",)
    params = dict(t=_TRec12("RegionCoreTree"), x=TInt(0, 255), y=TInt(0, 255), p=TInt(0, 17))
    fragment_result = ()
    fragment_head = "for p in cores:"
    externals = {"RegionCoreTree.add_core": _tree_add}
    assumptions = ["RegionCoreTree.add_core (contracts AddCoreLevel0..3) is recorded"]

    def native(x):
        raise __import__("pyvc.replay", fromlist=["OutsideHarness"]).OutsideHarness()

    def ensures_this_core_of_this_chip(x, y, p, _trace):
        return len(_trace) == 1 and _trace[0] == ("add_core", x, y, p)


def _tree_new(E, args, kwargs, st, node):
    s = st.copy()
    s.trace = _L12(s.trace.items + (("new_tree",) + tuple(args),))
    return [(s, _O12("RegionCoreTree", {"ident": 61}))]


@contract("rig/machine_control/regions.py::compress_flood_fill_regions@seq:0:1")
class CompressStartsFromAnEmptyTree:
    """every call starts from a NEW tree (nothing selected by an earlier call can leak into this one)"""
    properties = ("C12", "C17")
    params = dict()
    fragment_result = ("t",)
    fragment_head = "t = ..."
    externals = {"class:RegionCoreTree": _tree_new}
    assumptions = ["the RegionCoreTree constructor is recorded (a new tree selects nothing: bounded layer)"]

    def native():
        raise __import__("pyvc.replay", fromlist=["OutsideHarness"]).OutsideHarness()

    def ensures_a_new_tree_made_without_arguments(result, _trace):
        return len(_trace) == 1 and _trace[0] == ("new_tree",) and result[0].ident == 61
