"""C12 -- flood-fill region words (rig/machine_control/regions.py)."""
from pyvc.spec import contract, lemma
from pyvc.values import TInt, TBV
from pyvc.speclib import implies, iff, forall_keys

COORD = TBV(40, 0, 255)
LEVEL = TBV(40, 0, 3)
WORD = TBV(40, 0, 0xffffffff)


def selects(region, cx, cy):
    """The documented meaning of a region word (SC&MP flood-fill / 'Managing Big SpiNNaker
    Machines'): bits 31:24 and 23:18 give the block's base x and y, bits 17:16 the level, bits 15:0
    select sub-blocks; level l blocks are 4**(4-l) chips square with 4x4 sub-blocks."""
    lvl = (region >> 16) & 3
    s = 6 - 2 * lvl
    m = 0xff ^ ((4 << s) - 1)
    return (((cx & m) == ((region >> 24) & 0xff))
            and ((cy & m) == ((region >> 16) & 0xfc))
            and (((region >> (((cx >> s) & 3) + 4 * ((cy >> s) & 3))) & 1) == 1))


@contract("rig/machine_control/regions.py::get_region_for_chip")
class GetRegionForChip:
    properties = ("C12",)
    bv = 40
    params = dict(x=COORD, y=COORD, level=LEVEL)

    def ensures_fits_a_word(x, y, level, result):
        return 0 <= result <= 0xffffffff

    def ensures_names_the_level(x, y, level, result):
        return ((result >> 16) & 3) == level

    def ensures_selects_the_chip(x, y, level, result):
        return selects(result, x, y)

    def ensures_exactly_one_subblock(x, y, level, result):
        b = result & 0xffff
        return b != 0 and (b & (b - 1)) == 0

    def ensures_single_chip_word_selects_that_chip_only(x, y, level, result):
        return implies(level == 3, forall_keys(lambda cx, cy: implies(
            cx <= 255 and cy <= 255 and selects(result, cx, cy), cx == x and cy == y)))


@lemma("region_words_of_one_block_or_to_the_union")
class RegionUnion:
    """words with equal bits 31:16 (same block, same level) OR together to the union of what
    they select -- the tree accumulates sub-block bits this way"""
    properties = ("C12",)
    bv = 40
    params = dict(a=WORD, b=WORD, cx=COORD, cy=COORD)

    def assuming(a, b, cx, cy):
        return (a >> 16) == (b >> 16)

    def claim(a, b, cx, cy):
        return iff(selects(a | b, cx, cy), selects(a, cx, cy) or selects(b, cx, cy))
