"""C13 -- file-like views of allocated memory (rig/machine_control/machine_controller.py:
SlicedMemoryIO, MemoryIO and the _if_not_closed/_if_not_freed decorators)."""
import z3
from pyvc.spec import contract, lemma
from pyvc.values import TInt, TBool, TTuple, TOpt, TSeq, TRec, TConst, SeqV, ListV, ObjV
from pyvc.speclib import implies, ite, forall_range, select, seq_len, is_none, unopt, warnings_of, warnings_at, iff

BYTES = TSeq(TInt(0, 255), "bytes")
MEM = TSeq(TInt(0, 255), "bytes")          # the chip's memory, indexed by address (length irrelevant)
PARENT = TRec("OpaqueParent", _freed=TBool(), mem=MEM, closed=TBool())     # (the root view has its own closed flag)
VIEW = TRec("SlicedMemoryIO", closed=TBool(), _parent=PARENT, _start_address=TInt(), _end_address=TInt(), _offset=TInt())
SLICE = TRec("slice", start=TOpt(TInt()), stop=TOpt(TInt()), step=TOpt(TInt()))


# ---- assumed contract of the parent (MemoryIO._perform_read/_perform_write, verified below) -------
def _perform_read(E, obj, args, kwargs, st, node):
    """returns mem[addr : addr+size]; records ('read', addr, size) in the ghost trace"""
    from pyvc import seqs
    addr, size = args
    s = st.copy()
    s.trace = ListV(s.trace.items + (("read", addr, size),))
    data = seqs.seq_slice(obj.fields["mem"], addr, addr + size)
    ok = (s, SeqV(size, data.elem, data.arrs, "bytes", data.base), None)
    fails = E.options.get("entry", {}).get("g_transfer_fails")        # (a parameter of the contract under verification, if declared)
    if fails is None:
        return [ok]
    # where a contract declares the ghost g_transfer_fails, the transfer may also fail (the controller's read raises - a
    # timeout, say): nothing was transferred
    from pyvc.engine import Raised
    from pyvc.values import ExcV
    return [(s.assume(z3.Not(fails)), ok[1], None), (st.assume(fails), Raised(ExcV("TransferError")), None)]


def _perform_write(E, obj, args, kwargs, st, node):
    """mem[addr : addr+len(data)] = data, nothing else changes; records ('write', addr, len)"""
    from pyvc import ops, seqs
    from pyvc.values import fresh_name, to_int_term
    addr, data = args
    data = seqs.to_seq(data)
    n = data.length
    s = st.copy()
    s.trace = ListV(s.trace.items + (("write", addr, n),))
    mem = obj.fields["mem"]
    j = z3.Int(fresh_name("j"))
    r = z3.Array(fresh_name("mem"), z3.IntSort(), z3.IntSort())
    a_t, n_t = to_int_term(addr), to_int_term(n)
    ops.define(r.decl().name(), z3.ForAll([j], z3.Select(r, j) == z3.If(z3.And(j >= a_t, j < a_t + n_t),
                                                                         z3.Select(data.arrs[0], seqs._off(data.base, j - a_t)), z3.Select(mem.arrs[0], seqs._off(mem.base, j))),
                                          patterns=[z3.Select(r, j)]))
    newobj = obj.with_field("mem", SeqV(mem.length, mem.elem, [r], mem.kind, 0))
    fails = E.options.get("entry", {}).get("g_transfer_fails")
    if fails is None:
        return [(s, n, newobj)]
    from pyvc.engine import Raised
    from pyvc.values import ExcV
    return [(s.assume(z3.Not(fails)), n, newobj), (st.assume(fails), Raised(ExcV("TransferError")), None)]


EXTERNALS = {"OpaqueParent._perform_read": _perform_read, "OpaqueParent._perform_write": _perform_write}


# ---- vocabulary ----------------------------------------------------------------------------------
def inv(v):
    return v._start_address <= v._end_address


def usable(v):
    return not v.closed and not v._parent._freed


def length(v):
    return v._end_address - v._start_address


def clip(n, lo, hi):
    return max(lo, min(n, hi))


def transferable(v, n):
    """bytes a bounded file of length len(v) transfers for a request of n at the current position"""
    return ite(0 <= v._offset <= length(v), clip(n, 0, length(v) - v._offset), 0)


def confined(trace, v):
    return all(v._start_address <= t[1] and t[1] + t[2] <= v._end_address and t[2] >= 1 for t in trace)


def frame_view(a, b):
    """nothing but the offset changed"""
    return (b.closed == a.closed and b._start_address == a._start_address and b._end_address == a._end_address
            and b._parent._freed == a._parent._freed)


# ---- native harness: a real SlicedMemoryIO over a recording parent ---------------------------------
class TransferError(Exception):
    """the controller below the view fails to carry out a transfer (an SCP timeout, say)"""


class _Parent(object):
    def __init__(self, freed, mem, closed=False):
        self._freed = freed
        self.closed = closed
        self.mem = bytearray(mem) if mem is not None else bytearray(4096)
        self.trace = []

    def _perform_read(self, addr, size):
        if getattr(self, "fail_transfers", False):
            raise TransferError()
        self.trace.append(("read", addr, size))
        return bytes(self.mem[addr:addr + size]) if addr >= 0 and size >= 0 else b"?" * max(size, 0)

    def _perform_write(self, addr, data):
        if getattr(self, "fail_transfers", False):
            raise TransferError()
        self.trace.append(("write", addr, len(data)))
        if addr >= 0:
            self.mem[addr:addr + len(data)] = data
        return len(data)


def _norm_mem(self):
    """place the solver's view inside a concrete 0..4095 memory (shift addresses)"""
    return self


def _mk_view(self):
    from rig.machine_control.machine_controller import SlicedMemoryIO
    from pyvc.replay import OutsideHarness
    if not (0 <= self._start_address <= self._end_address <= 4096):
        raise OutsideHarness()
    par = _Parent(self._parent._freed, None, getattr(self._parent, 'closed', False))
    par.mem[:] = bytes((7 * i + 3) % 251 for i in range(4096))
    self._parent.mem = bytes(par.mem)          # the pre-state memory the contract text is evaluated on
    v = SlicedMemoryIO(par, self._start_address, self._end_address)
    v._end_address = self._end_address
    v._offset = self._offset
    v.closed = self.closed
    return v, par


def _run(self, call, fail_transfers=False):
    import warnings
    import types
    v, par = _mk_view(self)
    par.fail_transfers = fail_transfers
    w = []
    with warnings.catch_warnings():
        warnings.simplefilter("always")
        # (every warning is noted together with the number of transfers made before it)
        warnings.showwarning = lambda message, category, *a, **k: w.append((category.__name__, len(par.trace)))
        try:
            res = call(v)
            raised = None
        except Exception as e:
            res, raised = None, type(e).__name__
    import pyvc.speclib as sl
    sl._warnings[:] = [x[0] for x in w]
    sl._warnings_at[:] = [x[1] for x in w]
    post = types.SimpleNamespace(closed=v.closed, _start_address=v._start_address, _end_address=v._end_address,
                                 _offset=v._offset, _parent=types.SimpleNamespace(_freed=par._freed, mem=bytes(par.mem)))
    if isinstance(res, type(v)):
        res = types.SimpleNamespace(closed=res.closed, _start_address=res._start_address, _end_address=res._end_address,
                                    _offset=res._offset, _parent=types.SimpleNamespace(_freed=res._parent._freed, mem=bytes(res._parent.mem)))
    return {"__native__": True, "result": res, "raised": raised, "self_post": post, "_trace": list(par.trace)}


# ---- SlicedMemoryIO ----------------------------------------------------------------------------------
@contract("rig/machine_control/machine_controller.py::SlicedMemoryIO.read")
class Read:
    properties = ("C13",)
    params = dict(self=VIEW, n_bytes=TInt(), g_transfer_fails=TBool())
    externals = EXTERNALS
    raises = {"OSError": None, "TransferError": None}

    def native(self, n_bytes, g_transfer_fails):
        return _run(self, lambda v: v.read(n_bytes), fail_transfers=g_transfer_fails)

    def raises_TransferError(self, self_post, g_transfer_fails, _trace):
        # "positions advance by the bytes transferred": a transfer that fails moved nothing, the position stays where it was
        return g_transfer_fails and usable(self) and self_post._offset == self._offset and frame_view(self, self_post)

    def requires(self, n_bytes):
        return inv(self)

    def raises_OSError(self, _trace):
        return not usable(self) and len(_trace) == 0

    def ensures_only_when_usable(self):
        return usable(self)

    def ensures_confined_to_the_view(self, _trace):
        return confined(_trace, self)

    def ensures_returns_the_bytes_of_a_bounded_file(self, n_bytes, result, self_post):
        want = transferable(self, ite(n_bytes < 0, length(self), n_bytes))
        return (seq_len(result) == want
                and forall_range(0, want, lambda i: select(result, i) == select(self._parent.mem, self._start_address + self._offset + i))
                and self_post._offset == self._offset + want)

    def ensures_truncation_warning_exactly_when_cut_at_the_end_of_the_view(self, n_bytes):
        # "reads ... are truncated at the end of the view with a truncation warning": one TruncationWarning exactly when the
        # bytes asked for reach beyond the end of the view (a read "to the end" never does), none otherwise
        cut = n_bytes >= 0 and self._offset + n_bytes > length(self)
        return implies(cut, warnings_of() == ("TruncationWarning",)) and implies(not cut, len(warnings_of()) == 0)

    def ensures_truncation_is_reported_before_anything_is_transferred(self, n_bytes):
        return all(n == 0 for n in warnings_at())

    def ensures_frame(self, self_post):
        return frame_view(self, self_post)


@contract("rig/machine_control/machine_controller.py::SlicedMemoryIO.write")
class Write:
    properties = ("C13",)
    params = dict(self=VIEW, bytes=BYTES, g_transfer_fails=TBool())
    externals = EXTERNALS
    raises = {"OSError": None, "TransferError": None}

    def native(self, bytes, g_transfer_fails):
        return _run(self, lambda v: v.write(bytes), fail_transfers=g_transfer_fails)

    def raises_TransferError(self, self_post, g_transfer_fails):
        # a write that the controller fails to carry out transferred nothing: the position stays, nothing else changed
        return (g_transfer_fails and usable(self) and self_post._offset == self._offset and frame_view(self, self_post)
                and forall_range(0, seq_len(self._parent.mem), lambda a: select(self_post._parent.mem, a) == select(self._parent.mem, a)))

    def requires(self, bytes):
        return inv(self)

    def raises_OSError(self, _trace):
        return not usable(self) and len(_trace) == 0

    def ensures_only_when_usable(self):
        return usable(self)

    def ensures_confined_to_the_view(self, _trace):
        return confined(_trace, self)

    def ensures_writes_like_a_bounded_file(self, bytes, result, self_post):
        want = transferable(self, seq_len(bytes))
        base = self._start_address + self._offset
        return (result == want and self_post._offset == self._offset + want
                and forall_range(0, want, lambda i: select(self_post._parent.mem, base + i) == select(bytes, i)))

    def ensures_truncation_warning_exactly_when_cut_at_the_end_of_the_view(self, bytes):
        # one TruncationWarning exactly when the data reaches beyond the end of the view; a write that fits - also one that
        # ends exactly on the last byte, and an empty one - is not reported as truncated
        cut = self._offset + seq_len(bytes) > length(self)
        return implies(cut, warnings_of() == ("TruncationWarning",)) and implies(not cut, len(warnings_of()) == 0)

    def ensures_truncation_is_reported_before_anything_is_transferred(self, bytes):
        # a caller who turns the warning into an error (as the docstring suggests) must find the view as it was: nothing written,
        # the position unmoved - so the warning has to come before the transfer
        return all(n == 0 for n in warnings_at())

    def ensures_changes_no_other_byte(self, bytes, self_post):
        want = transferable(self, seq_len(bytes))
        base = self._start_address + self._offset
        return forall_range(0, seq_len(self._parent.mem), lambda a: implies(not (base <= a < base + want),
                            select(self_post._parent.mem, a) == select(self._parent.mem, a)))

    def ensures_frame(self, self_post):
        return frame_view(self, self_post)


@contract("rig/machine_control/machine_controller.py::SlicedMemoryIO.seek")
class Seek:
    properties = ("C13",)
    params = dict(self=VIEW, n_bytes=TInt(), from_what=TInt())
    externals = EXTERNALS
    raises = {"OSError": None, "ValueError": None}

    def native(self, n_bytes, from_what):
        return _run(self, lambda v: v.seek(n_bytes, from_what))

    def requires(self, n_bytes, from_what):
        return inv(self)

    def raises_OSError(self, _trace):
        return not usable(self) and len(_trace) == 0

    def raises_ValueError(self, from_what):
        return from_what != 0 and from_what != 1 and from_what != 2

    def ensures_from_start_and_current(self, n_bytes, from_what, self_post, _trace):
        return (len(_trace) == 0 and implies(from_what == 0, self_post._offset == n_bytes)
                and implies(from_what == 1, self_post._offset == self._offset + n_bytes))

    def ensures_from_end_like_a_file(self, n_bytes, from_what, self_post):
        # a file positions at length + offset for whence == 2 (known finding D7c: the code computes
        # length - offset; the repository's own test pins that behaviour)
        return implies(from_what == 2, self_post._offset == length(self) + n_bytes)

    def ensures_from_end_relative_to_the_length_of_this_view(self, n_bytes, from_what, self_post):
        # (implied by the clause above; holds on the pinned tree, so a seek that goes anywhere else than the recorded finding
        #  fails THIS obligation, which is not a known finding)
        return implies(from_what == 2, self_post._offset == length(self) + n_bytes or self_post._offset == length(self) - n_bytes)

    def ensures_frame(self, self_post):
        return frame_view(self, self_post)


@contract("rig/machine_control/machine_controller.py::SlicedMemoryIO.tell")
class Tell:
    properties = ("C13",)
    params = dict(self=VIEW)
    externals = EXTERNALS
    raises = {"OSError": None}

    def native(self):
        return _run(self, lambda v: v.tell())

    def raises_OSError(self, _trace):
        return not usable(self) and len(_trace) == 0

    def ensures_position(self, result, self_post, _trace):
        return result == self._offset and self_post._offset == self._offset and len(_trace) == 0 and frame_view(self, self_post)


@contract("rig/machine_control/machine_controller.py::SlicedMemoryIO.address")
class Address:
    properties = ("C13",)
    params = dict(self=VIEW)
    externals = EXTERNALS
    raises = {"OSError": None}

    def native(self):
        return _run(self, lambda v: v.address)

    def raises_OSError(self, _trace):
        return not usable(self) and len(_trace) == 0

    def ensures_address(self, result, _trace):
        return result == self._start_address + self._offset and len(_trace) == 0


@contract("rig/machine_control/machine_controller.py::SlicedMemoryIO.flush")
class Flush:
    properties = ("C13",)
    params = dict(self=VIEW)
    externals = EXTERNALS
    raises = {"OSError": None}

    def native(self):
        return _run(self, lambda v: v.flush())

    def raises_OSError(self, _trace):
        return not usable(self) and len(_trace) == 0

    def ensures_no_effect(self, self_post, _trace):
        return len(_trace) == 0 and frame_view(self, self_post) and self_post._offset == self._offset


@contract("rig/machine_control/machine_controller.py::SlicedMemoryIO.close")
class Close:
    properties = ("C13",)
    params = dict(self=VIEW)
    externals = EXTERNALS
    raises = {"OSError": None}

    def native(self):
        return _run(self, lambda v: v.close())

    def raises_OSError(self):
        # closing a view whose allocation was freed goes through the guarded flush()
        return not self.closed and self._parent._freed

    def ensures_closed_afterwards(self, self_post, _trace):
        return self_post.closed and len(_trace) == 0


@contract("rig/machine_control/machine_controller.py::SlicedMemoryIO.__len__")
class Len:
    properties = ("C13",)
    params = dict(self=VIEW)
    externals = EXTERNALS

    def native(self):
        return _run(self, lambda v: len(v))

    def requires(self):
        return inv(self)

    def ensures_length(self, result):
        return result == length(self) and result >= 0


def norm(b, n, default):
    """python's normalisation of a slice bound against a length n"""
    return default if b is None else clip(ite(unopt(b) < 0, unopt(b) + n, unopt(b)), 0, n)


@contract("rig/machine_control/machine_controller.py::SlicedMemoryIO.__getitem__")
class GetItem:
    properties = ("C13",)
    params = dict(self=VIEW, sl=SLICE)
    externals = EXTERNALS
    raises = {"ValueError": None, "OSError": None}

    def native(self, sl):
        return _run(self, lambda v: v[slice(sl.start, sl.stop, sl.step)])

    def requires(self, sl):
        return inv(self)

    def raises_ValueError(sl):
        return not (sl.step is None or sl.step == 1)

    def raises_OSError(self):
        return not usable(self)

    def ensures_only_when_usable(self):
        # (D7b) "after the view is closed, or its allocation freed, every operation fails"
        return usable(self)

    def ensures_covers_exactly_the_clipped_subrange(self, sl, result, _trace):
        n = length(self)
        lo = norm(sl.start, n, 0)
        hi = max(lo, norm(sl.stop, n, n))
        return (result._start_address == self._start_address + lo and result._end_address == self._start_address + hi
                and result._offset == 0 and not result.closed and len(_trace) == 0)

    def ensures_stays_inside_the_parent_view(self, sl, result):
        return self._start_address <= result._start_address <= result._end_address <= self._end_address


@contract("rig/machine_control/machine_controller.py::SlicedMemoryIO.__init__")
class Init:
    properties = ("C13",)
    params = dict(self=TRec("SlicedMemoryIO"), parent=PARENT, start_address=TInt(), end_address=TInt())
    externals = EXTERNALS

    def native(parent, start_address, end_address):
        from rig.machine_control.machine_controller import SlicedMemoryIO
        import types
        v = SlicedMemoryIO(_Parent(parent._freed, None), start_address, end_address)
        return {"__native__": True, "result": None, "self_post": types.SimpleNamespace(
            closed=v.closed, _start_address=v._start_address, _end_address=v._end_address, _offset=v._offset,
            _parent=types.SimpleNamespace(_freed=v._parent._freed))}

    def ensures_establishes_the_invariant(self_post, start_address, end_address):
        return (inv(self_post) and self_post._start_address == start_address
                and self_post._end_address == max(start_address, end_address)
                and self_post._offset == 0 and not self_post.closed)


# ---- MemoryIO: the allocation itself (parent of every view) -------------------------------------------
MC = TRec("OpaqueMC")
# (the root view of an allocation can be CLOSED - e.g. by leaving its `with` block - without the allocation being freed: views sliced
#  from it go on transferring through it, so its transfer methods and free() must look at `_freed` only)
MEMIO = TRec("MemoryIO", _freed=TBool(), closed=TBool(), _x=TInt(0, 255), _y=TInt(0, 255), _start_address=TInt(), _machine_controller=MC)


def _mc_read(E, obj, args, kwargs, st, node):
    from pyvc.values import fresh
    s = st.copy()
    s.trace = ListV(s.trace.items + (("mc.read",) + tuple(args),))
    data, facts = fresh(BYTES, "mcdata")
    return [(s.assume(*facts, data.length == args[1]), data, None)]


def _mc_write(E, obj, args, kwargs, st, node):
    from pyvc import seqs
    s = st.copy()
    s.trace = ListV(s.trace.items + (("mc.write", args[0], seqs.seq_len(args[1])) + tuple(args[2:]),))
    from pyvc.values import NONE
    return [(s, NONE, None)]


def _mc_free(E, obj, args, kwargs, st, node):
    s = st.copy()
    s.trace = ListV(s.trace.items + (("mc.sdram_free",) + tuple(args),))
    from pyvc.values import NONE
    return [(s, NONE, None)]


MC_EXTERNALS = {"OpaqueMC.read": _mc_read, "OpaqueMC.write": _mc_write, "OpaqueMC.sdram_free": _mc_free}


class _MC(object):
    def __init__(self):
        self.trace = []

    def read(self, addr, size, x, y, p):
        self.trace.append(("mc.read", addr, size, x, y, p))
        return b"\x00" * max(size, 0)

    def write(self, addr, data, x, y, p):
        self.trace.append(("mc.write", addr, len(data), x, y, p))

    def sdram_free(self, addr, x, y):
        self.trace.append(("mc.sdram_free", addr, x, y))


def _run_memio(self, call):
    from rig.machine_control.machine_controller import MemoryIO
    import types
    mc = _MC()
    m = MemoryIO(mc, self._x, self._y, self._start_address, self._start_address + 16)
    m._freed = self._freed
    m.closed = bool(getattr(self, "closed", False))
    try:
        res, raised = call(m), None
    except Exception as e:
        res, raised = None, type(e).__name__
    return {"__native__": True, "result": res, "raised": raised, "_trace": list(mc.trace),
            "self_post": types.SimpleNamespace(_freed=m._freed, _x=m._x, _y=m._y, _start_address=m._start_address)}


@contract("rig/machine_control/machine_controller.py::MemoryIO._perform_read")
class PerformRead:
    properties = ("C13",)
    params = dict(self=MEMIO, addr=TInt(), size=TInt())
    externals = MC_EXTERNALS
    raises = {"OSError": None}

    def native(self, addr, size):
        return _run_memio(self, lambda m: m._perform_read(addr, size))

    def raises_OSError(self, _trace):
        return self._freed and len(_trace) == 0

    def ensures_one_read_of_exactly_that_range_on_the_allocations_chip(self, addr, size, _trace):
        return not self._freed and len(_trace) == 1 and _trace[0] == ("mc.read", addr, size, self._x, self._y, 0)


@contract("rig/machine_control/machine_controller.py::MemoryIO._perform_write")
class PerformWrite:
    properties = ("C13",)
    params = dict(self=MEMIO, addr=TInt(), data=BYTES)
    externals = MC_EXTERNALS
    raises = {"OSError": None}

    def native(self, addr, data):
        return _run_memio(self, lambda m: m._perform_write(addr, data))

    def raises_OSError(self, _trace):
        return self._freed and len(_trace) == 0

    def ensures_one_write_of_exactly_that_range_on_the_allocations_chip(self, addr, data, _trace):
        return not self._freed and len(_trace) == 1 and _trace[0] == ("mc.write", addr, seq_len(data), self._x, self._y, 0)


@contract("rig/machine_control/machine_controller.py::MemoryIO.free")
class Free:
    properties = ("C13",)
    params = dict(self=MEMIO)
    externals = MC_EXTERNALS
    raises = {"OSError": None}

    def native(self):
        return _run_memio(self, lambda m: m.free())

    def raises_OSError(self, _trace):
        return self._freed and len(_trace) == 0

    def ensures_frees_once_and_marks_freed(self, self_post, _trace):
        return (not self._freed and self_post._freed and len(_trace) == 1
                and _trace[0] == ("mc.sdram_free", self._start_address, self._x, self._y))


# ---- where views come from: the allocation call ---------------------------------------------------------
def _sdram_alloc(E, obj, args, kwargs, st, node):
    """assumed: returns the start address of a fresh block of `size` bytes (ghost input g_start)"""
    s = st.copy()
    s.trace = ListV(s.trace.items + (("sdram_alloc",) + tuple(args),))
    return [(s, st.env["g_start"], None)]


@contract("rig/machine_control/machine_controller.py::MemoryIO.__init__")
class MemoryIOInit:
    properties = ("C13",)
    params = dict(self=TRec("MemoryIO"), machine_controller=MC, x=TInt(0, 255), y=TInt(0, 255),
                  start_address=TInt(), end_address=TInt())

    def native(machine_controller, x, y, start_address, end_address):
        from rig.machine_control.machine_controller import MemoryIO
        import types
        m = MemoryIO(_MC(), x, y, start_address, end_address)
        return {"__native__": True, "result": None, "self_post": types.SimpleNamespace(
            closed=m.closed, _start_address=m._start_address, _end_address=m._end_address, _offset=m._offset,
            _freed=m._freed, _x=m._x, _y=m._y)}

    def ensures_view_of_exactly_the_given_range(self_post, x, y, start_address, end_address):
        return (self_post._start_address == start_address and self_post._end_address == max(start_address, end_address)
                and self_post._offset == 0 and not self_post.closed and not self_post._freed
                and self_post._x == x and self_post._y == y)


@contract("rig/machine_control/machine_controller.py::MachineController.sdram_alloc_as_filelike")
class AllocAsFilelike:
    """the view handed out for an allocation covers exactly the allocated block [start, start + size)"""
    properties = ("C13",)
    params = dict(self=TRec("MachineController"), size=TInt(0, None), tag=TInt(0, 255), x=TInt(0, 255), y=TInt(0, 255),
                  app_id=TInt(0, 255), clear=TBool(), g_start=TInt(1, None))
    externals = {"MachineController.sdram_alloc": _sdram_alloc}
    options = {"decorators": {"use_contextual_arguments": "identity"}}
    assumptions = ["sdram_alloc (SCP alloc command) is external: it returns the start of a block of the requested size"]

    def native(size, tag, x, y, app_id, clear, g_start):
        from rig.machine_control.machine_controller import MachineController
        from rig.utils.contexts import Required
        import types
        from rig.utils.contexts import ContextMixin
        mc = MachineController.__new__(MachineController)
        ContextMixin.__init__(mc, {"app_id": 66, "x": Required, "y": Required, "p": Required})
        calls = []
        mc.sdram_alloc = lambda *a, **k: (calls.append(a), g_start)[1]
        m = MachineController.sdram_alloc_as_filelike(mc, size, tag, x, y, app_id, clear)
        return {"__native__": True, "result": types.SimpleNamespace(
            closed=m.closed, _start_address=m._start_address, _end_address=m._end_address, _offset=m._offset,
            _freed=m._freed, _x=m._x, _y=m._y), "_trace": [("sdram_alloc",) + tuple(a) for a in calls]}

    def ensures_one_allocation_of_the_requested_size(size, tag, x, y, app_id, clear, _trace):
        return len(_trace) == 1 and _trace[0] == ("sdram_alloc", size, tag, x, y, app_id, clear)

    def ensures_view_is_exactly_the_allocated_block(size, x, y, g_start, result):
        return (result._start_address == g_start and result._end_address == g_start + size
                and result._offset == 0 and not result.closed and not result._freed
                and result._x == x and result._y == y)


# ---- sdram_alloc: the block a view is made over -----------------------------------------------------------------------------------------
from pyvc.values import ListV as _L13, ObjV as _O13, NONE as _N13, TRec as _TRec13, TInt as _TInt13, TBool as _TBool13   # noqa: E402


def _alloc_scp(E, obj, args, kwargs, st, node):
    s = st.copy()
    s.trace = _L13(s.trace.items + (("scp",) + tuple(args),))
    return [(s, _O13("SCPPacket", {"arg1": st.env["g_address"]}), None)]


def _alloc_fill(E, obj, args, kwargs, st, node):
    s = st.copy()
    s.trace = _L13(s.trace.items + (("fill",) + tuple(args),))
    return [(s, _N13, None)]


@contract("rig/machine_control/machine_controller.py::MachineController.sdram_alloc", variant="untagged")
class SdramAlloc:
    """one allocation request to the monitor of exactly the chip named, for exactly `size` bytes under the caller's application;
    address 0 in the reply is a refusal (SpiNNakerMemoryError, nothing else sent); otherwise the address is returned as it is and,
    when asked to clear, exactly [address, address + size) of that chip is filled with zeros - nothing more, nothing elsewhere"""
    properties = ("C13",)
    params = dict(self=_TRec13("MachineController"), size=_TInt13(0, 2 ** 27), tag=_TInt13(0, 0), x=_TInt13(0, 255), y=_TInt13(0, 255),
                  app_id=_TInt13(0, 255), clear=_TBool13(), g_address=_TInt13(0, 2 ** 32 - 1))
    externals = {"MachineController._send_scp": _alloc_scp, "MachineController.fill": _alloc_fill}
    options = {"decorators": {"use_contextual_arguments": "identity"}, "int_class": "rig/machine_control/consts.py::SCPCommands"}
    raises = {"SpiNNakerMemoryError": None}
    assumptions = ["use_contextual_arguments as the identity (C18); _send_scp (MCSendScp) and fill (MCFill, C07) are recorded; untagged "
                   "allocations (tag 0: the tagged failure path reads the tag table to word its message)"]

    def native(x):
        raise __import__("pyvc.replay", fromlist=["OutsideHarness"]).OutsideHarness()

    def raises_SpiNNakerMemoryError(g_address, _trace):
        return g_address == 0 and len(_trace) == 1

    def ensures_asked_of_this_chip_for_this_size_and_cleared_only_inside(size, x, y, app_id, clear, g_address, result, _trace):
        return (g_address != 0 and result == g_address and _trace[0] == ("scp", x, y, 0, 28, app_id * 256, size, 0)
                and implies(not clear, len(_trace) == 1)
                and implies(clear, len(_trace) == 2 and _trace[1] == ("fill", g_address, 0, size, x, y, 0)))


@contract("rig/machine_control/machine_controller.py::MachineController.sdram_free")
class SdramFree:
    """freeing a block sends one free-by-pointer request, with exactly that pointer, to the monitor of exactly the chip named"""
    properties = ("C13",)
    params = dict(self=_TRec13("MachineController"), ptr=_TInt13(0, 2 ** 32 - 1), x=_TInt13(0, 255), y=_TInt13(0, 255), g_address=_TInt13(0, 0))
    externals = {"MachineController._send_scp": _alloc_scp}
    options = {"decorators": {"use_contextual_arguments": "identity"}, "int_class": "rig/machine_control/consts.py::SCPCommands"}
    assumptions = ["use_contextual_arguments as the identity (C18); _send_scp (MCSendScp) is recorded"]

    def native(x):
        raise __import__("pyvc.replay", fromlist=["OutsideHarness"]).OutsideHarness()

    def ensures_this_pointer_on_this_chip(ptr, x, y, _trace):
        return len(_trace) == 1 and _trace[0] == ("scp", x, y, 0, 28, 1, ptr)
