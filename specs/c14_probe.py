"""C14 -- decoding of the chip-information reply (MachineController.get_chip_info).  The wire
layout is the assumed external contract (SC&MP 'info' command, transcribed from the
documentation in specs): arg1 = ethernet_up<<25 | largest_rtr_block<<14 | links<<8 | n_cores;
arg2/arg3 = largest free SDRAM/SRAM block; data = 18 core-state bytes, H local Ethernet chip
(x<<8 | y), I IP address.  Probing end to end is decided by bounded/c14_probe.py."""
from pyvc.spec import contract, lemma
from pyvc.values import TInt, TBool, TSeq, TRec, ObjV, LitSet, ListV, NONE, TTuple
from pyvc.speclib import implies, iff, forall_range, select, seq_len, bits

BYTES = TSeq(TInt(0, 255), "bytes")
REPLY = TRec("SCPPacket", arg1=TInt(0, 2 ** 32 - 1), arg2=TInt(0, 2 ** 32 - 1), arg3=TInt(0, 2 ** 32 - 1), data=BYTES)
MC = TRec("MachineController")


def _send_scp(E, obj, args, kwargs, st, node):
    s = st.copy()
    s.trace = ListV(s.trace.items + ((tuple(args), tuple(sorted(kwargs))),))
    return [(s, st.env["g_reply"], None)]


def _chipinfo(E, args, kwargs, st, node):
    return [(st, ObjV("ChipInfo", dict(kwargs)))]


@contract("rig/machine_control/machine_controller.py::MachineController.get_chip_info")
class GetChipInfo:
    properties = ("C14",)
    params = dict(self=MC, x=TInt(0, 255), y=TInt(0, 255), g_reply=REPLY)
    externals = {"MachineController._send_scp": _send_scp, "class:ChipInfo": _chipinfo}
    options = {"decorators": {"use_contextual_arguments": "identity"}, "int_class": "rig/links.py::Links"}
    raises = {"ValueError": None, "struct.error": None}
    assumptions = ["ContextMixin.use_contextual_arguments treated as the identity for get_chip_info (property C18)",
                   "wire layout of the SC&MP info reply as stated in specs/c14_probe.py"]

    def native(self, x, y, g_reply):
        from rig.machine_control.machine_controller import MachineController
        import collections
        from rig.utils.contexts import Context
        import types
        mc = MachineController.__new__(MachineController)
        from rig.utils.contexts import ContextMixin
        ContextMixin.__init__(mc, {})
        calls = []

        def send(*a, **k):
            calls.append((a, k))
            return types.SimpleNamespace(arg1=g_reply.arg1, arg2=g_reply.arg2, arg3=g_reply.arg3, data=bytes(g_reply.data))
        mc._send_scp = send
        try:
            r, raised = mc.get_chip_info(x, y), None
        except Exception as e:
            r, raised = None, type(e).__name__
        return {"__native__": True, "result": r, "raised": raised, "_trace": [(a, tuple(sorted(k))) for a, k in calls]}

    def requires(g_reply):
        return True

    def raises_struct__error(g_reply):
        return seq_len(g_reply.data) < 24

    def raises_ValueError(g_reply):
        # a core-state byte that is not an application state known to rig (0..11 and 15 are)
        return seq_len(g_reply.data) >= 24 and not forall_range(0, 18, lambda i: select(g_reply.data, i) <= 11 or select(g_reply.data, i) == 15)

    def ensures_asks_the_chip_named(x, y, _trace):
        return len(_trace) == 1 and _trace[0][0][0] == x and _trace[0][0][1] == y and _trace[0][0][2] == 0 and _trace[0][0][3] == 31

    def ensures_counts_and_memory_figures(g_reply, result):
        return (result.num_cores == bits(g_reply.arg1, 0, 5)
                and result.largest_free_rtr_mc_block == bits(g_reply.arg1, 14, 11)
                and result.ethernet_up == (bits(g_reply.arg1, 25, 1) == 1)
                and result.largest_free_sdram_block == g_reply.arg2
                and result.largest_free_sram_block == g_reply.arg3)

    def ensures_working_links_are_the_link_bits(g_reply, result):
        return all((l in result.working_links) == (bits(g_reply.arg1, 8 + l, 1) == 1) for l in range(6))

    def ensures_core_states_of_the_present_cores(g_reply, result):
        n = bits(g_reply.arg1, 0, 5)
        return (seq_len(result.core_states) == min(n, 18)
                and forall_range(0, min(n, 18), lambda i: select(result.core_states, i) == select(g_reply.data, i)))

    def ensures_local_ethernet_chip(g_reply, result):
        return (result.local_ethernet_chip[0] == select(g_reply.data, 19) and result.local_ethernet_chip[1] == select(g_reply.data, 18))


# ---- core reservations: maximal runs of busy cores ---------------------------------------------------------
from pyvc.values import TOpt, TNone, ListV as _ListV, ObjV as _ObjV   # noqa: E402
from pyvc.speclib import select as _select   # noqa: E402,F401


def _rrc(E, args, kwargs, st, node):
    return [(st, _ObjV("ReserveResourceConstraint", {"resource": args[0], "reservation": args[1], "location": args[2] if len(args) > 2 else kwargs.get("location")}))]


@contract("rig/place_and_route/utils.py::_get_minimal_core_reservations")
class MinimalCoreReservations:
    """cores: strictly increasing core numbers.  Every yielded reservation is a maximal run of
    consecutive numbers of the input; runs are yielded in order and together cover the input exactly
    once (ghost counter g_done = number of input cores covered by the reservations yielded so far)."""
    properties = ("C14",)
    params = dict(core_resource=TInt(), cores=TSeq(TInt(0, 17)), chip=TOpt(TTuple(TInt(), TInt())))
    externals = {"class:ReserveResourceConstraint": _rrc}
    options = {"opaque_yields": True,
               "var_shapes": {"reservation": TOpt(TRec("slice", start=TInt(), stop=TInt(), step=TNone()))}}
    ghost_vars = {"g_done": TInt()}
    loop_headers = {0: "for core in cores:"}
    ghost_updates = {"yield ReserveResourceConstraint(core_resource, reservation, chip)": ["gupd_count_covered"]}
    ghost_asserts = {"yield ReserveResourceConstraint(core_resource, reservation, chip)": ["ghost_reservation_is_the_next_maximal_run"]}

    def native(core_resource, cores, chip):
        raise __import__("pyvc.replay", fromlist=["OutsideHarness"]).OutsideHarness()

    def requires(cores):
        return forall_range(0, seq_len(cores) - 1, lambda i: select(cores, i) < select(cores, i + 1))

    def gupd_count_covered(g_done, reservation):
        return {"g_done": g_done + (reservation.stop - reservation.start)}

    def inv_0_current_run(cores, reservation, g_done, _k0):
        # `reservation` is the run of consecutive cores ending at the last core seen; the cores before
        # it are covered by what was yielded
        return ((reservation is None) == (_k0 == 0) and (reservation is not None or g_done == 0)
                and (reservation is None or (
                    g_done >= 0 and g_done + (reservation.stop - reservation.start) == _k0
                    and reservation.start < reservation.stop
                    and reservation.stop == select(cores, _k0 - 1) + 1
                    and reservation.start == select(cores, g_done)
                    and (g_done == 0 or select(cores, g_done - 1) + 1 < reservation.start))))

    def inv_0_run_is_consecutive(cores, reservation, g_done, _k0):
        return reservation is None or forall_range(g_done, _k0, lambda m: select(cores, m) == reservation.start + (m - g_done))

    def ghost_reservation_is_the_next_maximal_run(cores, reservation, g_done, chip):
        # (evaluated after the ghost update: g_done already counts this reservation)
        n = reservation.stop - reservation.start
        first = g_done - n
        return (n >= 1 and first >= 0 and g_done <= seq_len(cores)
                and forall_range(first, g_done, lambda m: select(cores, m) == reservation.start + (m - first))
                and (first == 0 or select(cores, first - 1) + 1 < reservation.start)
                and (g_done == seq_len(cores) or select(cores, g_done) > reservation.stop))

    def ensures_every_core_covered_exactly_once(cores, g_done):
        return g_done == seq_len(cores)
