"""C14 -- decoding of the chip-information reply (MachineController.get_chip_info).  The wire
layout is the assumed external contract (SC&MP 'info' command, transcribed from the
documentation in specs): arg1 = ethernet_up<<25 | largest_rtr_block<<14 | links<<8 | n_cores;
arg2/arg3 = largest free SDRAM/SRAM block; data = 18 core-state bytes, H local Ethernet chip
(x<<8 | y), I IP address.  Probing end to end is decided by bounded/c14_probe.py."""
from pyvc.spec import contract, lemma
from pyvc.values import TInt, TBool, TSeq, TRec, ObjV, LitSet, ListV, NONE
from pyvc.speclib import implies, iff, forall_range, select, seq_len, bits

BYTES = TSeq(TInt(0, 255), "bytes")
REPLY = TRec("SCPPacket", arg1=TInt(0, 2 ** 32 - 1), arg2=TInt(0, 2 ** 32 - 1), arg3=TInt(0, 2 ** 32 - 1), data=BYTES)
MC = TRec("MachineController")


def _send_scp(E, obj, args, kwargs, st, node):
    s = st.copy()
    s.trace = ListV(s.trace.items + ((tuple(args), tuple(sorted(kwargs))),))
    return [(s, st.env["g_reply"], None)]


def _chipinfo(E, args, kwargs, st, node):
    return [(st, ObjV("ChipInfo", dict(kwargs)))]


@contract("rig/machine_control/machine_controller.py::MachineController.get_chip_info")
class GetChipInfo:
    properties = ("C14",)
    params = dict(self=MC, x=TInt(0, 255), y=TInt(0, 255), g_reply=REPLY)
    externals = {"MachineController._send_scp": _send_scp, "class:ChipInfo": _chipinfo}
    options = {"decorators": {"use_contextual_arguments": "identity"}, "int_class": "rig/links.py::Links"}
    raises = {"ValueError": None, "struct.error": None}
    assumptions = ["ContextMixin.use_contextual_arguments treated as the identity for get_chip_info (property C18)",
                   "wire layout of the SC&MP info reply as stated in specs/c14_probe.py"]

    def native(self, x, y, g_reply):
        from rig.machine_control.machine_controller import MachineController
        import collections
        from rig.utils.contexts import Context
        import types
        mc = MachineController.__new__(MachineController)
        from rig.utils.contexts import ContextMixin
        ContextMixin.__init__(mc, {})
        calls = []

        def send(*a, **k):
            calls.append((a, k))
            return types.SimpleNamespace(arg1=g_reply.arg1, arg2=g_reply.arg2, arg3=g_reply.arg3, data=bytes(g_reply.data))
        mc._send_scp = send
        try:
            r, raised = mc.get_chip_info(x, y), None
        except Exception as e:
            r, raised = None, type(e).__name__
        return {"__native__": True, "result": r, "raised": raised, "_trace": [(a, tuple(sorted(k))) for a, k in calls]}

    def requires(g_reply):
        return True

    def raises_struct__error(g_reply):
        return seq_len(g_reply.data) < 24

    def raises_ValueError(g_reply):
        # a core-state byte that is not an application state known to rig (0..11 and 15 are)
        return seq_len(g_reply.data) >= 24 and not forall_range(0, 18, lambda i: select(g_reply.data, i) <= 11 or select(g_reply.data, i) == 15)

    def ensures_asks_the_chip_named(x, y, _trace):
        return len(_trace) == 1 and _trace[0][0][0] == x and _trace[0][0][1] == y and _trace[0][0][2] == 0 and _trace[0][0][3] == 31

    def ensures_counts_and_memory_figures(g_reply, result):
        return (result.num_cores == bits(g_reply.arg1, 0, 5)
                and result.largest_free_rtr_mc_block == bits(g_reply.arg1, 14, 11)
                and result.ethernet_up == (bits(g_reply.arg1, 25, 1) == 1)
                and result.largest_free_sdram_block == g_reply.arg2
                and result.largest_free_sram_block == g_reply.arg3)

    def ensures_working_links_are_the_link_bits(g_reply, result):
        return all((l in result.working_links) == (bits(g_reply.arg1, 8 + l, 1) == 1) for l in range(6))

    def ensures_core_states_of_the_present_cores(g_reply, result):
        n = bits(g_reply.arg1, 0, 5)
        return (seq_len(result.core_states) == min(n, 18)
                and forall_range(0, min(n, 18), lambda i: select(result.core_states, i) == select(g_reply.data, i)))

    def ensures_local_ethernet_chip(g_reply, result):
        return (result.local_ethernet_chip[0] == select(g_reply.data, 19) and result.local_ethernet_chip[1] == select(g_reply.data, 18))
