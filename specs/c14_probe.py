"""C14 -- decoding of the chip-information reply (MachineController.get_chip_info).  The wire
layout is the assumed external contract (SC&MP 'info' command, transcribed from the
documentation in specs): arg1 = ethernet_up<<25 | largest_rtr_block<<14 | links<<8 | n_cores;
arg2/arg3 = largest free SDRAM/SRAM block; data = 18 core-state bytes, H local Ethernet chip
(x<<8 | y), I IP address.  Probing end to end is decided by bounded/c14_probe.py."""
from pyvc.spec import contract, lemma
from pyvc.values import TInt, TBool, TSeq, TRec, ObjV, LitSet, ListV, NONE, TTuple
from pyvc.speclib import implies, iff, forall_range, select, seq_len, bits

BYTES = TSeq(TInt(0, 255), "bytes")
REPLY = TRec("SCPPacket", arg1=TInt(0, 2 ** 32 - 1), arg2=TInt(0, 2 ** 32 - 1), arg3=TInt(0, 2 ** 32 - 1), data=BYTES)
MC = TRec("MachineController")


def _send_scp(E, obj, args, kwargs, st, node):
    s = st.copy()
    s.trace = ListV(s.trace.items + ((tuple(args), tuple(sorted(kwargs))),))
    return [(s, st.env["g_reply"], None)]


def _chipinfo(E, args, kwargs, st, node):
    return [(st, ObjV("ChipInfo", dict(kwargs)))]


@contract("rig/machine_control/machine_controller.py::MachineController.get_chip_info")
class GetChipInfo:
    properties = ("C14",)
    params = dict(self=MC, x=TInt(0, 255), y=TInt(0, 255), g_reply=REPLY)
    externals = {"MachineController._send_scp": _send_scp, "class:ChipInfo": _chipinfo}
    options = {"decorators": {"use_contextual_arguments": "identity"}, "int_class": "rig/links.py::Links"}
    raises = {"ValueError": None, "struct.error": None}
    assumptions = ["ContextMixin.use_contextual_arguments treated as the identity for get_chip_info (property C18)",
                   "wire layout of the SC&MP info reply as stated in specs/c14_probe.py"]

    def native(self, x, y, g_reply):
        from rig.machine_control.machine_controller import MachineController
        import collections
        from rig.utils.contexts import Context
        import types
        mc = MachineController.__new__(MachineController)
        from rig.utils.contexts import ContextMixin
        ContextMixin.__init__(mc, {})
        calls = []

        def send(*a, **k):
            calls.append((a, k))
            return types.SimpleNamespace(arg1=g_reply.arg1, arg2=g_reply.arg2, arg3=g_reply.arg3, data=bytes(g_reply.data))
        mc._send_scp = send
        try:
            r, raised = mc.get_chip_info(x, y), None
        except Exception as e:
            r, raised = None, type(e).__name__
        return {"__native__": True, "result": r, "raised": raised, "_trace": [(a, tuple(sorted(k))) for a, k in calls]}

    def requires(g_reply):
        return True

    def raises_struct__error(g_reply):
        return seq_len(g_reply.data) < 24

    def raises_ValueError(g_reply):
        # a core-state byte that is not an application state known to rig (0..11 and 15 are)
        return seq_len(g_reply.data) >= 24 and not forall_range(0, 18, lambda i: select(g_reply.data, i) <= 11 or select(g_reply.data, i) == 15)

    def ensures_asks_the_chip_named(x, y, _trace):
        return len(_trace) == 1 and _trace[0][0][0] == x and _trace[0][0][1] == y and _trace[0][0][2] == 0 and _trace[0][0][3] == 31

    def ensures_counts_and_memory_figures(g_reply, result):
        return (result.num_cores == bits(g_reply.arg1, 0, 5)
                and result.largest_free_rtr_mc_block == bits(g_reply.arg1, 14, 11)
                and result.ethernet_up == (bits(g_reply.arg1, 25, 1) == 1)
                and result.largest_free_sdram_block == g_reply.arg2
                and result.largest_free_sram_block == g_reply.arg3)

    def ensures_working_links_are_the_link_bits(g_reply, result):
        return all((l in result.working_links) == (bits(g_reply.arg1, 8 + l, 1) == 1) for l in range(6))

    def ensures_core_states_of_the_present_cores(g_reply, result):
        n = bits(g_reply.arg1, 0, 5)
        return (seq_len(result.core_states) == min(n, 18)
                and forall_range(0, min(n, 18), lambda i: select(result.core_states, i) == select(g_reply.data, i)))

    def ensures_local_ethernet_chip(g_reply, result):
        return (result.local_ethernet_chip[0] == select(g_reply.data, 19) and result.local_ethernet_chip[1] == select(g_reply.data, 18))


# ---- core reservations: maximal runs of busy cores ---------------------------------------------------------
from pyvc.values import TOpt, TNone, ListV as _ListV, ObjV as _ObjV   # noqa: E402
from pyvc.speclib import select as _select   # noqa: E402,F401


def _rrc(E, args, kwargs, st, node):
    return [(st, _ObjV("ReserveResourceConstraint", {"resource": args[0], "reservation": args[1], "location": args[2] if len(args) > 2 else kwargs.get("location")}))]


@contract("rig/place_and_route/utils.py::_get_minimal_core_reservations")
class MinimalCoreReservations:
    """cores: strictly increasing core numbers.  Every yielded reservation is a maximal run of
    consecutive numbers of the input; runs are yielded in order and together cover the input exactly
    once (ghost counter g_done = number of input cores covered by the reservations yielded so far)."""
    properties = ("C14",)
    params = dict(core_resource=TInt(), cores=TSeq(TInt(0, 17)), chip=TOpt(TTuple(TInt(), TInt())))
    externals = {"class:ReserveResourceConstraint": _rrc}
    options = {"opaque_yields": True,
               "var_shapes": {"reservation": TOpt(TRec("slice", start=TInt(), stop=TInt(), step=TNone()))}}
    ghost_vars = {"g_done": TInt()}
    loop_headers = {0: "for core in cores:"}
    ghost_updates = {"yield ReserveResourceConstraint(core_resource, reservation, chip)": ["gupd_count_covered"]}
    ghost_asserts = {"yield ReserveResourceConstraint(core_resource, reservation, chip)": ["ghost_reservation_is_the_next_maximal_run"]}

    def native(core_resource, cores, chip):
        raise __import__("pyvc.replay", fromlist=["OutsideHarness"]).OutsideHarness()

    def requires(cores):
        return forall_range(0, seq_len(cores) - 1, lambda i: select(cores, i) < select(cores, i + 1))

    def gupd_count_covered(g_done, reservation):
        return {"g_done": g_done + (reservation.stop - reservation.start)}

    def inv_0_current_run(cores, reservation, g_done, _k0):
        # `reservation` is the run of consecutive cores ending at the last core seen; the cores before
        # it are covered by what was yielded
        return ((reservation is None) == (_k0 == 0) and (reservation is not None or g_done == 0)
                and (reservation is None or (
                    g_done >= 0 and g_done + (reservation.stop - reservation.start) == _k0
                    and reservation.start < reservation.stop
                    and reservation.stop == select(cores, _k0 - 1) + 1
                    and reservation.start == select(cores, g_done)
                    and (g_done == 0 or select(cores, g_done - 1) + 1 < reservation.start))))

    def inv_0_run_is_consecutive(cores, reservation, g_done, _k0):
        return reservation is None or forall_range(g_done, _k0, lambda m: select(cores, m) == reservation.start + (m - g_done))

    def ghost_reservation_is_the_next_maximal_run(cores, reservation, g_done, chip):
        # (evaluated after the ghost update: g_done already counts this reservation)
        n = reservation.stop - reservation.start
        first = g_done - n
        return (n >= 1 and first >= 0 and g_done <= seq_len(cores)
                and forall_range(first, g_done, lambda m: select(cores, m) == reservation.start + (m - first))
                and (first == 0 or select(cores, first - 1) + 1 < reservation.start)
                and (g_done == seq_len(cores) or select(cores, g_done) > reservation.stop))

    def ensures_every_core_covered_exactly_once(cores, g_done):
        return g_done == seq_len(cores)


# ---- the point-to-point table: eight 3-bit entries per 32-bit word, one read per column --------------------------------------
from pyvc.values import TMap   # noqa: E402
from pyvc.speclib import forall_int, opaque   # noqa: E402

P2P_BASE = 0xE1000000 + 0x10000


def _rsf_dims(E, obj, args, kwargs, st, node):
    return [(st, st.env["g_dims"], None)]


def _read_p2p(E, obj, args, kwargs, st, node):
    """self.read(address, length, x, y): the bytes of the router's P2P table memory (ghost g_mem, indexed from P2P_BASE)"""
    from pyvc import seqs
    addr, n = args[0], args[1]
    s = st.copy()
    s.trace = ListV(s.trace.items + (("read", addr, n) + tuple(args[2:]),))
    data = seqs.seq_slice(st.env["g_mem"], addr - P2P_BASE, addr - P2P_BASE + n)
    return [(s, data, None)]


def le32(b, i):
    return select(b, i) + 256 * select(b, i + 1) + 65536 * select(b, i + 2) + 16777216 * select(b, i + 3)


@opaque
def word_at(mem, idx):
    """the little-endian 32-bit word at byte offset idx of the table memory"""
    return le32(mem, idx)


def field(w, k):
    """3-bit field number k (0..7) of a word"""
    return sum(((bits(w, 3 * j, 3) if k == j else 0) for j in range(8)))


@opaque
def p2p_entry(mem, col, row):
    """the documented layout: column `col` starts 256 entries (= 32 words) after the previous one; entry `row` of a column is
    the 3-bit field number row % 8 of its word number row // 8"""
    return field(word_at(mem, 128 * col + 4 * (row // 8)), row % 8)


@contract("rig/machine_control/machine_controller.py::MachineController.get_p2p_routing_table")
class GetP2PTable:
    """ghost g_done = number of words of the current column consumed so far (keeps the loop arithmetic linear)"""
    properties = ("C14",)
    params = dict(self=MC, x=TInt(0, 255), y=TInt(0, 255), g_dims=TInt(0, 65535), g_mem=BYTES)
    externals = {"MachineController.read_struct_field": _rsf_dims, "MachineController.read": _read_p2p}
    options = {"decorators": {"use_contextual_arguments": "identity"}, "trace_in_loops": False,
               "var_shapes": {"table": TMap(TTuple(TInt(), TInt()), TInt(0, 7)), "raw_table_col": BYTES, "raw_word": BYTES, "row": TInt(), "word": TInt(0, 2 ** 32 - 1)},
               "int_class": "rig/machine_control/consts.py::P2PTableEntry"}
    loop_headers = {0: "for col in range(width):", 1: "while row < height:", 2: "for entry in range(min(8, height - row)):"}
    loop_unroll = {2: 8}        # at most eight entries per word: unrolled, with the unwinding obligation
    ghost_vars = {"g_done": TInt()}
    ghost_updates = {"row = 0": ["gupd_new_column"],
                     "raw_word, raw_table_col = raw_table_col[:4], raw_table_col[4:]": ["gupd_one_more_word"]}
    ghost_asserts = {"word, = ...": ["ghost_word_is_the_next_word_of_the_column"],
                     "table[(col, row)] = ...": [
                         "ghost_entry_number_is_the_row_within_its_word", "ghost_quotient_and_remainder", "ghost_value_stored",
                         "ghost_documented_field_is_that_field_of_the_word", "ghost_the_entry_stored_is_the_documented_field"]}
    assumptions = ["the transport is external: sv.p2p_dims and the router's P2P table memory (256 x 256 three-bit entries) are ghost inputs"]

    def native(x, y, g_dims, g_mem):
        from rig.machine_control.machine_controller import MachineController
        from rig.utils.contexts import ContextMixin, Required
        mem = bytes(g_mem) + bytes(256 * 128 - len(g_mem))
        mc = MachineController.__new__(MachineController)
        ContextMixin.__init__(mc, {"app_id": 66, "x": Required, "y": Required, "p": Required})
        calls = []
        mc.read_struct_field = lambda *a, **k: g_dims
        mc.read = lambda addr, n, *a, **k: (calls.append((addr, n)), mem[addr - P2P_BASE:addr - P2P_BASE + n])[1]
        t = mc.get_p2p_routing_table(x, y)
        return {"__native__": True, "result": None, "table": {(int(c), int(r)): int(v) for (c, r), v in t.items()}, "mem": mem}

    def native_check(inputs, out):
        w, h = (inputs["g_dims"] >> 8) & 255, inputs["g_dims"] & 255
        mem = out["mem"]
        want = {}
        for c in range(w):
            for r in range(h):
                word = int.from_bytes(mem[128 * c + 4 * (r // 8):128 * c + 4 * (r // 8) + 4], "little")
                want[(c, r)] = (word >> (3 * (r % 8))) & 7
        return [] if out["table"] == want else ["one_entry_per_chip_position_with_the_documented_field"]

    def sample_domain(g_dims):
        return g_dims % 256 <= 20 and g_dims // 256 <= 6

    def requires(g_mem):
        return seq_len(g_mem) == 256 * 128       # 256 columns of 32 words

    def gupd_new_column(g_done):
        return {"g_done": 0}

    def gupd_one_more_word(g_done):
        return {"g_done": g_done + 1}

    # ---- columns
    def inv_0_done_columns(table, g_mem, height, _k0):
        return forall_int(lambda c, r: ((c, r) in table) == (0 <= c < _k0 and 0 <= r < height)
                          and implies((c, r) in table, table[(c, r)] == p2p_entry(g_mem, c, r)))

    # ---- words of one column (the last word of a column may be used only in part: then row == height)
    def inv_1_position(height, row, g_done):
        return g_done >= 0 and 0 <= row <= height and row == min(8 * g_done, height)

    def inv_1_rows_of_this_column(table, g_mem, height, col, row):
        return forall_int(lambda c, r: ((c, r) in table) == ((0 <= c < col and 0 <= r < height) or (c == col and 0 <= r < row))
                          and implies((c, r) in table, table[(c, r)] == p2p_entry(g_mem, c, r)))

    def inv_1_rest_of_the_column_data(g_mem, height, col, g_done, raw_table_col):
        return (seq_len(raw_table_col) == ((height + 7) // 8) * 4 - 4 * g_done
                and forall_range(0, seq_len(raw_table_col), lambda i: select(raw_table_col, i) == select(g_mem, 128 * col + 4 * g_done + i)))

    def variant_1(row, height):
        return height - row

    # ---- one word, one entry
    def ghost_word_is_the_next_word_of_the_column(word, g_mem, col, row, g_done):
        # (after the ghost update: g_done - 1 is the number of this word)
        return row == 8 * (g_done - 1) and word == word_at(g_mem, 128 * col + 4 * (g_done - 1))

    def ghost_entry_number_is_the_row_within_its_word(row, entry, height, g_done):
        return row == 8 * (g_done - 1) + entry and 0 <= row < height

    def ghost_quotient_and_remainder(row, entry, g_done):
        return row // 8 == g_done - 1 and row % 8 == entry

    def ghost_value_stored(table, col, row, word, entry):
        return (col, row) in table and table[(col, row)] == bits(word, 3 * entry, 3)

    def ghost_documented_field_is_that_field_of_the_word(g_mem, col, row, word, entry):
        return p2p_entry(g_mem, col, row) == bits(word, 3 * entry, 3)

    def ghost_the_entry_stored_is_the_documented_field(table, g_mem, col, row):
        # (evaluated after the assignment)
        return (col, row) in table and table[(col, row)] == p2p_entry(g_mem, col, row)

    def ensures_one_entry_per_chip_position_with_the_documented_field(g_dims, g_mem, result):
        w = (g_dims // 256) % 256
        h = g_dims % 256
        return forall_int(lambda c, r: ((c, r) in result) == (0 <= c < w and 0 <= r < h)
                          and implies((c, r) in result, result[(c, r)] == p2p_entry(g_mem, c, r)))


# ---- get_iobuf_bytes: one block of the chain (one turn of its `while address:` loop) ---------------------------------------
def _mc_read14(E, obj, args, kwargs, st, node):
    s = st.copy()
    s.trace = ListV(s.trace.items + (("read",) + tuple(args),))
    return [(s, st.env["g_block"], None)]


def _le32at(b, i):
    return select(b, i) + 256 * select(b, i + 1) + 65536 * select(b, i + 2) + 16777216 * select(b, i + 3)


@contract("rig/machine_control/machine_controller.py::MachineController.get_iobuf_bytes@whilebody:0")
class IobufBlockStep:
    """one block of a core's console buffer: the whole block (16-byte header + iobuf_size bytes) is read from the chain address
    on the core's chip; the text grows by exactly the `length` bytes that follow the header (a full block contributes all of
    its iobuf_size bytes), and the walk continues at the header's next-block address"""
    properties = ("C14",)
    params = dict(self=TRec("MachineController"), address=TInt(1, 2 ** 32 - 1), iobuf=BYTES, iobuf_size=TInt(1, 65536), x=TInt(0, 255), y=TInt(0, 255),
                  g_block=BYTES)
    fragment_result = ("address", "iobuf")
    fragment_head = "while address:"
    externals = {"MachineController.read": _mc_read14}
    assumptions = ["MachineController.read is recorded here (C07): the block it returns is the ghost g_block of the length asked for"]

    def native(x):
        raise __import__("pyvc.replay", fromlist=["OutsideHarness"]).OutsideHarness()

    def requires(iobuf_size, g_block):
        return seq_len(g_block) == iobuf_size + 16 and _le32at(g_block, 12) <= iobuf_size

    def ensures_reads_the_whole_block_of_this_core(address, iobuf_size, x, y, _trace):
        return len(_trace) == 1 and _trace[0] == ("read", address, iobuf_size + 16, x, y)

    def ensures_follows_the_chain(g_block, result):
        return result[0] == _le32at(g_block, 0)

    def ensures_appends_exactly_the_bytes_the_header_counts(iobuf, g_block, result):
        n = _le32at(g_block, 12)
        return (seq_len(result[1]) == seq_len(iobuf) + n
                and forall_range(0, seq_len(iobuf), lambda i: select(result[1], i) == select(iobuf, i))
                and forall_range(0, n, lambda i: select(result[1], seq_len(iobuf) + i) == select(g_block, 16 + i)))


def _mc_read14kw(E, obj, args, kwargs, st, node):
    s = st.copy()
    s.trace = ListV(s.trace.items + (("read",) + tuple(args) + tuple(sorted(kwargs.items())),))
    return [(s, st.env["g_block"], None)]


@contract("rig/machine_control/machine_controller.py::MachineController.get_router_diagnostics")
class RouterDiagnosticsRead:
    """the 16 counters are the 16 little-endian words at 0xe1000300 (the router's diagnostic counter registers) of that chip,
    in register order"""
    properties = ("C14",)
    params = dict(self=TRec("MachineController"), x=TInt(0, 255), y=TInt(0, 255), g_block=BYTES)
    externals = {"MachineController.read": _mc_read14kw}
    options = {"decorators": {"use_contextual_arguments": "identity"}}
    assumptions = ["MachineController.read is recorded here (C07)"]

    def native(x):
        raise __import__("pyvc.replay", fromlist=["OutsideHarness"]).OutsideHarness()

    def requires(g_block):
        return seq_len(g_block) == 64

    def ensures_reads_the_counter_registers_of_this_chip(x, y, _trace):
        return len(_trace) == 1 and _trace[0] == ("read", 0xe1000300, 64, ("x", x), ("y", y))

    def ensures_counters_in_register_order(g_block, result):
        return (result.local_multicast == _le32at(g_block, 0) and result.external_multicast == _le32at(g_block, 4)
                and result.local_p2p == _le32at(g_block, 8) and result.external_p2p == _le32at(g_block, 12)
                and result.local_nearest_neighbour == _le32at(g_block, 16) and result.external_nearest_neighbour == _le32at(g_block, 20)
                and result.local_fixed_route == _le32at(g_block, 24) and result.external_fixed_route == _le32at(g_block, 28)
                and result.dropped_multicast == _le32at(g_block, 32) and result.dropped_p2p == _le32at(g_block, 36)
                and result.dropped_nearest_neighbour == _le32at(g_block, 40) and result.dropped_fixed_route == _le32at(g_block, 44)
                and result.counter12 == _le32at(g_block, 48) and result.counter13 == _le32at(g_block, 52)
                and result.counter14 == _le32at(g_block, 56) and result.counter15 == _le32at(g_block, 60))

from pyvc.values import TBool as _TBool14, TSmallSet, TTuple, TRec, TInt   # noqa: E402,F401

# ---- SystemInfo.dead_links / dead_chips: one candidate (fragments) - what build_machine records as dead ------------------------------


@contract("rig/machine_control/machine_controller.py::SystemInfo.dead_links@forbody:1")
class SystemInfoDeadLinkStep:
    """one link of one responding chip: reported dead exactly when the chip's probe does not list it as working"""
    properties = ("C14",)
    params = dict(x=TInt(0, 255), y=TInt(0, 255), link=TInt(0, 5), chip_info=TRec("ChipInfo", working_links=TSmallSet(list(range(6)))))
    fragment_result = ()
    fragment_head = "for link in Links:"
    yields = TTuple(TInt(), TInt(), TInt(0, 5))
    options = {"int_class": "rig/links.py::Links", "no_merge": True}

    def native(x):
        raise __import__("pyvc.replay", fromlist=["OutsideHarness"]).OutsideHarness()

    def ensures_dead_exactly_when_not_listed_as_working(x, y, link, chip_info, _yielded):
        return (implies(link not in chip_info.working_links, len(_yielded) == 1 and _yielded[0] == (x, y, link))
                and implies(link in chip_info.working_links, len(_yielded) == 0))


def _si_contains(E, obj, args, kwargs, st, node):
    return [(st, st.env["g_responded"], None)]


@contract("rig/machine_control/machine_controller.py::SystemInfo.dead_chips@forbody:1")
class SystemInfoDeadChipStep:
    """one chip position inside the machine's extent: reported dead exactly when no probe result is held for it"""
    properties = ("C14",)
    params = dict(self=TRec("SystemInfo", width=TInt(1, 256), height=TInt(1, 256)), x=TInt(0, 255), y=TInt(0, 255), g_responded=_TBool14())
    fragment_result = ()
    fragment_head = "for y in range(self.height):"
    externals = {"SystemInfo.__contains__": _si_contains}
    yields = TTuple(TInt(), TInt())
    options = {"no_merge": True}

    def native(x):
        raise __import__("pyvc.replay", fromlist=["OutsideHarness"]).OutsideHarness()

    def ensures_dead_exactly_when_nothing_is_held_for_it(x, y, g_responded, _yielded):
        return implies(not g_responded, len(_yielded) == 1 and _yielded[0] == (x, y)) and implies(g_responded, len(_yielded) == 0)


# ---- get_system_info: one entry of the P2P table (fragment) ---------------------------------------------------------------------
import z3   # noqa: E402
from pyvc.values import ListV, NONE, ObjV, ExcV   # noqa: E402,F401
def _gci(E, obj, args, kwargs, st, node):
    from pyvc.engine import Raised
    s = st.copy()
    s.trace = ListV(s.trace.items + (("get_chip_info",) + tuple(args),))
    ok = s.assume(z3.Not(st.env["g_no_answer"]))
    bad = s.assume(st.env["g_no_answer"])
    return [(ok, ObjV("ChipInfo", {"ident": 3}), None), (bad, Raised(ExcV("SCPError", ())), None)]


def _si_set(E, obj, args, kwargs, st, node):
    s = st.copy()
    s.trace = ListV(s.trace.items + (("held_for", args[0], args[1].fields["ident"]),))
    return [(s, NONE, None)]


@contract("rig/machine_control/machine_controller.py::MachineController.get_system_info@forbody:0")
class SystemInfoProbeStep:
    """one entry of the P2P table: a chip the table has NO route to is not probed and not listed; a chip it has a route to is
    probed - exactly that chip - and what it answers is held under exactly its coordinates; a chip that does not answer is
    simply not listed (it will count as dead)"""
    properties = ("C14",)
    params = dict(self=TRec("MachineController"), x=TInt(0, 255), y=TInt(0, 255), p2p_route=TInt(0, 7), sys_info=TRec("SystemInfo"), g_no_answer=TBool())
    fragment_result = ()
    fragment_head = "for (x, y), p2p_route in iteritems(p2p_tables):"
    externals = {"MachineController.get_chip_info": _gci, "SystemInfo.__setitem__": _si_set}
    options = {"int_class": "rig/machine_control/consts.py::P2PTableEntry", "no_merge": True}
    assumptions = ["get_chip_info (its own contract) is recorded: it answers or raises SCPError (ghost); the result object is opaque"]

    def native(x):
        raise __import__("pyvc.replay", fromlist=["OutsideHarness"]).OutsideHarness()

    def ensures_probed_iff_routable_and_listed_iff_it_answers(x, y, p2p_route, g_no_answer, _trace):
        routable = p2p_route != 6          # P2P table code 6: no route (sark: the chip is absent or dead)
        return (implies(not routable, len(_trace) == 0)
                and implies(routable, len(_trace) >= 1 and _trace[0] == ("get_chip_info", x, y))
                and implies(routable and g_no_answer, len(_trace) == 1)
                and implies(routable and not g_no_answer, len(_trace) == 2 and _trace[1] == ("held_for", (x, y), 3)))


# ---- the extent of the machine worked out from the P2P table (get_system_info, discover_connections) ---------------------------------
from pyvc.values import TMap   # noqa: E402,F401
from pyvc.speclib import forall_int, exists_int   # noqa: E402,F401
P2P = TMap(TTuple(TInt(0, 255), TInt(0, 255)), TInt(0, 7))


def _p2p(E, obj, args, kwargs, st, node):
    s = st.copy()
    s.trace = ListV(s.trace.items + (("get_p2p_routing_table",) + tuple(args),))
    return [(s, st.env["g_table"], None)]


def _new_si(E, args, kwargs, st, node):
    return [(st, ObjV("SystemInfo", {"width": args[0], "height": args[1]}))]


@contract("rig/machine_control/machine_controller.py::MachineController.get_system_info@seq:0:3")
class SystemInfoExtent:
    """the extent of the machine: width and height are one more than the largest x and the largest y - each on its own - of the
    chips the P2P table has a route to (a machine whose far corner is dead is still as wide as its widest row and as tall as
    its tallest column)"""
    properties = ("C14",)
    params = dict(self=TRec("MachineController"), x=TInt(0, 255), y=TInt(0, 255), g_table=P2P)
    fragment_result = ("max_x", "max_y")
    fragment_head = "p2p_tables = ..."
    externals = {"MachineController.get_p2p_routing_table": _p2p, "class:SystemInfo": _new_si}
    raises = {"ValueError": None}
    options = {"int_class": "rig/machine_control/consts.py::P2PTableEntry"}
    assumptions = ["get_p2p_routing_table (its own contract) returns the ghost table; SystemInfo(width, height) is the record of its arguments"]

    def native(x):
        raise __import__("pyvc.replay", fromlist=["OutsideHarness"]).OutsideHarness()

    def raises_ValueError(g_table):
        return not exists_int(lambda a, b: (a, b) in g_table and g_table[(a, b)] != 6)

    def ensures_width_and_height_from_the_routable_chips(g_table, result):
        w, h = result[0] + 1, result[1] + 1
        return (forall_int(lambda a, b: implies((a, b) in g_table and g_table[(a, b)] != 6, a < w and b < h))
                and exists_int(lambda a, b: (a, b) in g_table and g_table[(a, b)] != 6 and a == w - 1)
                and exists_int(lambda a, b: (a, b) in g_table and g_table[(a, b)] != 6 and b == h - 1))


@contract("rig/machine_control/machine_controller.py::MachineController.get_system_info@seq:3:1")
class SystemInfoExtentUsed:
    """... and the probe result is created with exactly that width and height"""
    properties = ("C14",)
    params = dict(max_x=TInt(0, 255), max_y=TInt(0, 255))
    fragment_result = ("sys_info",)
    fragment_head = "sys_info = ..."
    externals = {"class:SystemInfo": _new_si}

    def native(max_x):
        raise __import__("pyvc.replay", fromlist=["OutsideHarness"]).OutsideHarness()

    def ensures_one_more_than_the_largest_coordinates(max_x, max_y, result):
        return result[0].width == max_x + 1 and result[0].height == max_y + 1


@contract("rig/machine_control/machine_controller.py::MachineController.discover_connections@seq:0:3")
class DiscoverExtent:
    """the size the controller works with (it decides which board a chip belongs to): one more than the largest x and the
    largest y - each on its own - of the chips the P2P table has a route to"""
    properties = ("C18", "C14")
    params = dict(self=TRec("MachineController", _width=TInt(), _height=TInt()), x=TInt(0, 255), y=TInt(0, 255), g_table=P2P)
    fragment_result = ("self",)
    fragment_head = "working_chips = ..."
    externals = {"MachineController.get_p2p_routing_table": _p2p}
    raises = {"ValueError": None}
    options = {"int_class": "rig/machine_control/consts.py::P2PTableEntry"}

    def native(x):
        raise __import__("pyvc.replay", fromlist=["OutsideHarness"]).OutsideHarness()

    def raises_ValueError(g_table):
        return not exists_int(lambda a, b: (a, b) in g_table and g_table[(a, b)] != 6)

    def ensures_width_and_height_from_the_routable_chips(g_table, result):
        w, h = result[0]._width, result[0]._height
        return (forall_int(lambda a, b: implies((a, b) in g_table and g_table[(a, b)] != 6, a < w and b < h))
                and exists_int(lambda a, b: (a, b) in g_table and g_table[(a, b)] != 6 and a == w - 1)
                and exists_int(lambda a, b: (a, b) in g_table and g_table[(a, b)] != 6 and b == h - 1))


# ---- build_machine: the nominal chip of the model ------------------------------------------------------------------------------
CHIPINFO3 = TRec("ChipInfo", num_cores=TInt(0, 18), largest_free_sdram_block=TInt(0, 2 ** 32), largest_free_sram_block=TInt(0, 2 ** 32))
SYSINFO3 = TMap(TTuple(TInt(0, 255), TInt(0, 255)), CHIPINFO3)


@contract("rig/place_and_route/utils.py::build_machine@seq:0:3")
class BuildMachineNominal:
    """the nominal chip of the machine model has, of each quantity on its own, the LARGEST amount any responding chip reports
    (so no chip has more than the nominal: the exceptions can only take away), and nothing when no chip responded"""
    properties = ("C14",)
    params = dict(system_info=SYSINFO3)
    fragment_result = ("max_cores", "max_sdram", "max_sram")
    fragment_head = "try:"
    raises = {"ValueError": None}

    def raises_ValueError(system_info):
        return False          # (max() of nothing raises it inside the three try blocks; it never escapes)

    def native(system_info):
        raise __import__("pyvc.replay", fromlist=["OutsideHarness"]).OutsideHarness()

    def ensures_each_nominal_quantity_is_the_largest_reported(system_info, result):
        empty = not exists_int(lambda a, b: (a, b) in system_info)
        return (implies(empty, result == (0, 0, 0))
                and implies(not empty,
                            forall_int(lambda a, b: implies((a, b) in system_info,
                                                            system_info[(a, b)].num_cores <= result[0]
                                                            and system_info[(a, b)].largest_free_sdram_block <= result[1]
                                                            and system_info[(a, b)].largest_free_sram_block <= result[2]))
                            and exists_int(lambda a, b: (a, b) in system_info and system_info[(a, b)].num_cores == result[0])
                            and exists_int(lambda a, b: (a, b) in system_info and system_info[(a, b)].largest_free_sdram_block == result[1])
                            and exists_int(lambda a, b: (a, b) in system_info and system_info[(a, b)].largest_free_sram_block == result[2])))


# ---- get_software_version: the version reply decoded, and nothing about the controller changed ------------------------------------------
from pyvc.values import TOpt   # noqa: E402,F401
from pyvc.speclib import unopt   # noqa: E402,F401


def _gsv_send(E, obj, args, kwargs, st, node):
    s = st.copy()
    s.trace = ListV(s.trace.items + (("_send_scp",) + tuple(args) + tuple(sorted(kwargs.items())),))
    return [(s, ObjV("SCPPacket", {"arg1": st.env["g_arg1"], "arg2": st.env["g_arg2"], "arg3": st.env["g_arg3"]}), None)]


def _gsv_unpack(E, args, kwargs, st, node):
    return [(st, (z3.IntVal(101), z3.IntVal(102), z3.IntVal(103)))]


def _gsv_coreinfo(E, args, kwargs, st, node):
    names = ("position", "physical_cpu", "virt_cpu", "version", "buffer_size", "build_date", "version_string", "software_version_labels")
    return [(st, ObjV("CoreInfo", dict(zip(names, args))))]


@contract("rig/machine_control/machine_controller.py::MachineController.get_software_version")
class SoftwareVersion:
    """one version request to exactly the core named; the reply's first argument is (x << 24 | y << 16 | physical core << 8 |
    virtual core), the low half of its second the buffer size the answering core advertises, the third the build date: reported as
    they are.  Nothing is remembered on the controller - in particular what an arbitrary core advertises does not become the
    size memory commands are cut to (that is the root monitor's answer, contract ScpDataLength)"""
    properties = ("C14", "C07")
    params = dict(self=TRec("MachineController", _scp_data_length=TOpt(TInt(1, None))), x=TInt(0, 255), y=TInt(0, 255), processor=TInt(0, 17),
                  g_arg1=TInt(0, 0xffffffff), g_arg2=TInt(0, 0xffffffff), g_arg3=TInt(0, 0xffffffff))
    externals = {"MachineController._send_scp": _gsv_send, "def:unpack_sver_response_version": _gsv_unpack, "class:CoreInfo": _gsv_coreinfo}
    options = {"decorators": {"use_contextual_arguments": "identity"}, "int_class": "rig/machine_control/consts.py::SCPCommands"}
    assumptions = ["ContextMixin.use_contextual_arguments treated as the identity (its resolution is property C18); _send_scp (contract MCSendScp, C18) "
                   "is recorded and returns an arbitrary reply; unpack_sver_response_version (string decoding of the version text) and the CoreInfo "
                   "constructor are opaque: which value goes into which field is what is checked"]

    def native(x):
        raise __import__("pyvc.replay", fromlist=["OutsideHarness"]).OutsideHarness()

    def ensures_one_request_to_the_named_core_and_the_reply_decoded(self, self_post, x, y, processor, g_arg1, g_arg2, g_arg3, result, _trace):
        return (len(_trace) == 1 and _trace[0] == ("_send_scp", x, y, processor, 0)
                and result.position == (g_arg1 // 2**24, (g_arg1 // 2**16) % 256)
                and result.physical_cpu == (g_arg1 // 256) % 256 and result.virt_cpu == g_arg1 % 256
                and result.buffer_size == g_arg2 % 65536 and result.build_date == g_arg3
                and result.version_string == 101 and result.version == 102 and result.software_version_labels == 103
                and self_post._scp_data_length == self._scp_data_length)


def _norm(names, args, kwargs):
    """a recorded call's arguments in PARAMETER ORDER, whether they were passed by position or by keyword (trailing ones left out
    stay left out)"""
    d = dict(zip(names, args))
    d.update(kwargs)
    out = []
    for n in names:
        if n in d:
            out.append(d[n])
    return tuple(out)


# ---- get_processor_status: which block of which chip is read (fragment: its first two statements) ------------------------------------
def _ps_structs_getitem(E, obj, args, kwargs, st, node):
    return [(st, ObjV("OpaqueStruct", {"size": st.env["g_size"]}), None)]


def _ps_read_struct_field(E, obj, args, kwargs, st, node):
    s = st.copy()
    s.trace = ListV(s.trace.items + (("read_struct_field",) + _norm(("struct_name", "field_name", "x", "y", "p"), args, kwargs),))
    return [(s, st.env["g_base"], None)]


def _ps_read(E, obj, args, kwargs, st, node):
    s = st.copy()
    s.trace = ListV(s.trace.items + (("read",) + _norm(("address", "length_bytes", "x", "y", "p"), args, kwargs),))
    return [(s, ObjV("Bytes", {"ident": 5}), None)]


@contract("rig/machine_control/machine_controller.py::MachineController.get_processor_status@seq:0:2")
class ProcessorStatusBlock:
    """the status reported for core p of chip (x, y) is decoded from exactly that core's block: the chip's OWN vcpu_base (read from
    that chip) + p whole blocks, one whole block long, read from that chip through its monitor (core 0)"""
    properties = ("C14",)
    params = dict(self=TRec("MachineController", structs=TRec("OpaqueStructs")), p=TInt(0, 17), x=TInt(0, 255), y=TInt(0, 255),
                  g_size=TInt(1, 4096), g_base=TInt(0, 2 ** 32 - 1))
    fragment_result = ("address", "data")
    fragment_head = "address = ..."
    externals = {"OpaqueStructs.__getitem__": _ps_structs_getitem, "MachineController.read_struct_field": _ps_read_struct_field,
                 "MachineController.read": _ps_read}
    assumptions = ["the struct definitions are opaque: structs[b'vcpu'].size is a ghost input; read_struct_field (contract ReadStructField_word, C07) "
                   "returns the chip's vcpu base (ghost) and read (contract MCRead, C07) the block's bytes (opaque): both recorded"]

    def native(x):
        raise __import__("pyvc.replay", fromlist=["OutsideHarness"]).OutsideHarness()

    def ensures_this_cores_block_of_this_chip(p, x, y, g_size, g_base, result, _trace):
        return (len(_trace) == 2 and _trace[0] == ("read_struct_field", "sv", "vcpu_base", x, y)
                and _trace[1] == ("read", g_base + g_size * p, g_size, x, y)
                and result[0] == g_base + g_size * p and result[1].ident == 5)


# ---- the small probes: the chip asked is the chip named ------------------------------------------------------------------------------
def _sp_chip_info(E, obj, args, kwargs, st, node):
    s = st.copy()
    s.trace = ListV(s.trace.items + (("get_chip_info",) + _norm(("x", "y"), args, kwargs),))
    return [(s, ObjV("ChipInfo", {"working_links": ObjV("LinkSet", {"ident": 8}), "ip_address": ObjV("Str", {"ident": 9}),
                                   "ethernet_up": st.env["g_up"]}), None)]


@contract("rig/machine_control/machine_controller.py::MachineController.get_working_links")
class WorkingLinks:
    """the working links reported for a chip are the ones that chip's own probe reports"""
    properties = ("C14",)
    params = dict(self=TRec("MachineController"), x=TInt(0, 255), y=TInt(0, 255), g_up=TBool())
    externals = {"MachineController.get_chip_info": _sp_chip_info}
    options = {"decorators": {"use_contextual_arguments": "identity"}}
    assumptions = ["get_chip_info (its own contract) is recorded and returns an opaque description; use_contextual_arguments as the identity (C18)"]

    def native(x):
        raise __import__("pyvc.replay", fromlist=["OutsideHarness"]).OutsideHarness()

    def ensures_of_the_chip_named(x, y, result, _trace):
        return len(_trace) == 1 and _trace[0] == ("get_chip_info", x, y) and result.ident == 8


@contract("rig/machine_control/machine_controller.py::MachineController.get_ip_address")
class IpAddress:
    """the address reported for a chip is that chip's own, and None exactly when its Ethernet link is down"""
    properties = ("C14", "C18")
    params = dict(self=TRec("MachineController"), x=TInt(0, 255), y=TInt(0, 255), g_up=TBool())
    externals = {"MachineController.get_chip_info": _sp_chip_info}
    options = {"decorators": {"use_contextual_arguments": "identity"}}
    assumptions = ["get_chip_info (its own contract) is recorded and returns an opaque description; use_contextual_arguments as the identity (C18)"]

    def native(x):
        raise __import__("pyvc.replay", fromlist=["OutsideHarness"]).OutsideHarness()

    def ensures_of_the_chip_named_and_none_iff_the_link_is_down(x, y, g_up, result, _trace):
        return (len(_trace) == 1 and _trace[0] == ("get_chip_info", x, y)
                and implies(g_up, result is not None and result.ident == 9) and implies(not g_up, result is None))


@contract("rig/machine_control/machine_controller.py::MachineController.get_num_working_cores")
class NumWorkingCores:
    """the core count reported for a chip is that chip's own system variable num_cpus"""
    properties = ("C14",)
    params = dict(self=TRec("MachineController"), x=TInt(0, 255), y=TInt(0, 255), g_size=TInt(1, 4096), g_base=TInt(0, 18))
    externals = {"MachineController.read_struct_field": _ps_read_struct_field}
    options = {"decorators": {"use_contextual_arguments": "identity"}}
    assumptions = ["read_struct_field (contract ReadStructField_word, C07) is recorded and returns the value read (ghost)"]

    def native(x):
        raise __import__("pyvc.replay", fromlist=["OutsideHarness"]).OutsideHarness()

    def ensures_of_the_chip_named(x, y, g_base, result, _trace):
        return len(_trace) == 1 and _trace[0] == ("read_struct_field", "sv", "num_cpus", x, y) and result == g_base


def _io_read_vcpu(E, obj, args, kwargs, st, node):
    s = st.copy()
    s.trace = ListV(s.trace.items + (("read_vcpu_struct_field",) + _norm(("field_name", "x", "y", "p"), args, kwargs),))
    return [(s, st.env["g_first"], None)]


@contract("rig/machine_control/machine_controller.py::MachineController.get_iobuf_bytes@seq:0:3")
class IobufStart:
    """where a core's console buffer starts: the block size is the CHIP's system variable iobuf_size, the first block the address
    in THIS core's own vcpu field iobuf (of this chip), and the text starts empty"""
    properties = ("C14",)
    params = dict(self=TRec("MachineController"), p=TInt(0, 17), x=TInt(0, 255), y=TInt(0, 255), g_base=TInt(1, 65536), g_first=TInt(0, 2 ** 32 - 1), g_size=TInt(1, 2))
    fragment_result = ("iobuf_size", "address", "iobuf")
    fragment_head = "iobuf_size = ..."
    externals = {"MachineController.read_struct_field": _ps_read_struct_field, "MachineController.read_vcpu_struct_field": _io_read_vcpu}
    assumptions = ["read_struct_field / read_vcpu_struct_field (contracts of C07) are recorded and return the values read (ghosts)"]

    def native(x):
        raise __import__("pyvc.replay", fromlist=["OutsideHarness"]).OutsideHarness()

    def ensures_this_chips_block_size_and_this_cores_chain(p, x, y, g_base, g_first, result, _trace):
        return (len(_trace) == 2 and _trace[0] == ("read_struct_field", "sv", "iobuf_size", x, y)
                and _trace[1] == ("read_vcpu_struct_field", "iobuf", x, y, p)
                and result[0] == g_base and result[1] == g_first and seq_len(result[2]) == 0)


# ---- SystemInfo.links / cores / ethernet_connected_chips: one element (fragments) - what the machine model is built from ----------------
@contract("rig/machine_control/machine_controller.py::SystemInfo.links@forbody:1")
class SystemInfoLinkStep:
    """one working link of one responding chip is reported under exactly that chip's coordinates"""
    properties = ("C14",)
    params = dict(x=TInt(0, 255), y=TInt(0, 255), link=TInt(0, 5))
    fragment_result = ()
    fragment_head = "for link in chip_info.working_links:"
    yields = TTuple(TInt(), TInt(), TInt(0, 5))
    options = {"no_merge": True}

    def native(x):
        raise __import__("pyvc.replay", fromlist=["OutsideHarness"]).OutsideHarness()

    def ensures_this_link_of_this_chip(x, y, link, _yielded):
        return len(_yielded) == 1 and _yielded[0] == (x, y, link)


@contract("rig/machine_control/machine_controller.py::SystemInfo.cores@forbody:1")
class SystemInfoCoreStep:
    """one core of one responding chip is reported with exactly that chip's coordinates, its own number and its own state"""
    properties = ("C14",)
    params = dict(x=TInt(0, 255), y=TInt(0, 255), p=TInt(0, 17), state=TInt(0, 15))
    fragment_result = ()
    fragment_head = "for p, state in enumerate(chip_info.core_states):"
    yields = TTuple(TInt(), TInt(), TInt(), TInt())
    options = {"no_merge": True}

    def native(x):
        raise __import__("pyvc.replay", fromlist=["OutsideHarness"]).OutsideHarness()

    def ensures_this_core_of_this_chip_with_its_state(x, y, p, state, _yielded):
        return len(_yielded) == 1 and _yielded[0] == (x, y, p, state)


@contract("rig/machine_control/machine_controller.py::SystemInfo.ethernet_connected_chips@forbody:0")
class SystemInfoEthernetStep:
    """a responding chip is reported as Ethernet connected - with its own coordinates and its own address - exactly when its
    Ethernet link is up"""
    properties = ("C14", "C18")
    params = dict(xy=TTuple(TInt(0, 255), TInt(0, 255)), chip_info=TRec("ChipInfo", ethernet_up=_TBool14(), ip_address=TInt()))
    fragment_result = ()
    fragment_head = "for xy, chip_info in six.iteritems(self):"
    yields = TTuple(TTuple(TInt(), TInt()), TInt())
    options = {"no_merge": True}

    def native(x):
        raise __import__("pyvc.replay", fromlist=["OutsideHarness"]).OutsideHarness()

    def ensures_listed_iff_up_with_its_own_address(xy, chip_info, _yielded):
        return (implies(chip_info.ethernet_up, len(_yielded) == 1 and _yielded[0] == (xy, chip_info.ip_address))
                and implies(not chip_info.ethernet_up, len(_yielded) == 0))


# ---- root_chip: the chip the machine was booted from is what the root monitor says about itself ----------------------------------------
def _rc_version(E, obj, args, kwargs, st, node):
    from pyvc.engine import Raised
    s = st.copy()
    s.trace = ListV(s.trace.items + (("get_software_version",) + tuple(args),))
    ok = s.assume(z3.Not(st.env["g_fails"]))
    bad = s.assume(st.env["g_fails"])
    return [(ok, ObjV("CoreInfo", {"position": st.env["g_position"]}), None), (bad, Raised(ExcV("SCPError", ())), None)]


@contract("rig/machine_control/machine_controller.py::MachineController.root_chip")
class RootChip:
    """a root chip already known is reported and nothing is sent; otherwise the root monitor (255, 255, 0) is asked and the position
    IT reports is returned and remembered; when the question fails nothing is remembered"""
    properties = ("C14", "C18")
    params = dict(self=TRec("MachineController", _root_chip=TOpt(TTuple(TInt(0, 255), TInt(0, 255)))), g_position=TTuple(TInt(0, 255), TInt(0, 255)),
                  g_fails=_TBool14())
    externals = {"MachineController.get_software_version": _rc_version}
    options = {"decorators": {"property": "identity"}}
    assumptions = ["get_software_version (contract SoftwareVersion) is recorded: it reports a position (ghost) or raises SCPError"]

    def native(x):
        raise __import__("pyvc.replay", fromlist=["OutsideHarness"]).OutsideHarness()

    def raises_SCPError(self, self_post, g_fails, _trace):
        return self._root_chip is None and g_fails and len(_trace) == 1 and self_post._root_chip is None

    def ensures_known_else_what_the_root_monitor_says(self, self_post, g_position, result, _trace):
        known = self._root_chip is not None
        return (implies(known, result == unopt(self._root_chip) and len(_trace) == 0 and self_post._root_chip == self._root_chip)
                and implies(not known, len(_trace) == 1 and _trace[0] == ("get_software_version", 255, 255, 0) and result == g_position
                            and self_post._root_chip is not None and unopt(self_post._root_chip) == g_position))


# ---- get_iobuf: the text is the decoded console buffer of exactly the core named -----------------------------------------------------
def _iobuf_bytes_rec(E, obj, args, kwargs, st, node):
    s = st.copy()
    s.trace = ListV(s.trace.items + (("get_iobuf_bytes",) + _norm(("p", "x", "y"), args, kwargs),))
    return [(s, ObjV("Bytes", {"ident": 6}), None)]


def _bytes_decode(E, obj, args, kwargs, st, node):
    return [(st, ObjV("Text", {"decoded_from": obj.fields["ident"]}), None)]


@contract("rig/machine_control/machine_controller.py::MachineController.get_iobuf")
class IobufText:
    """the console text reported for core p of chip (x, y) is decoded from the console buffer of exactly that core"""
    properties = ("C14",)
    params = dict(self=TRec("MachineController"), p=TInt(0, 17), x=TInt(0, 255), y=TInt(0, 255))
    externals = {"MachineController.get_iobuf_bytes": _iobuf_bytes_rec, "Bytes.decode": _bytes_decode}
    options = {"decorators": {"use_contextual_arguments": "identity"}}
    assumptions = ["get_iobuf_bytes (contracts IobufStart / IobufBlockStep) is recorded; decoding is opaque"]

    def native(x):
        raise __import__("pyvc.replay", fromlist=["OutsideHarness"]).OutsideHarness()

    def ensures_this_cores_buffer(p, x, y, result, _trace):
        return len(_trace) == 1 and _trace[0] == ("get_iobuf_bytes", p, x, y) and result.decoded_from == 6
