"""C15 -- SDP/SCP wire layout and round trip (rig/machine_control/packets.py)."""
from pyvc.spec import contract, lemma
from pyvc.values import TInt, TBool, TTuple, TOpt, TSeq, TRec, TConst
from pyvc.speclib import implies, ite, forall_range, select, seq_len, is_none, unopt
from rig.machine_control.packets import SDPPacket, SCPPacket

U8, U16, U32 = TInt(0, 255), TInt(0, 65535), TInt(0, 2 ** 32 - 1)
BYTES = TSeq(TInt(0, 255), "bytes")
_SDP_FIELDS = dict(reply_expected=TBool(), tag=U8, dest_port=TInt(0, 7), dest_cpu=TInt(0, 31),
                   src_port=TInt(0, 7), src_cpu=TInt(0, 31), dest_x=U8, dest_y=U8, src_x=U8, src_y=U8, data=BYTES)
SDP = TRec("SDPPacket", **_SDP_FIELDS)
SCP = TRec("SCPPacket", cmd_rc=U16, seq=U16, arg1=TOpt(U32), arg2=TOpt(U32), arg3=TOpt(U32), **_SDP_FIELDS)


# ---- the documented layout, written from the property statement --------------------------------
def header_ok(p, b):
    """bytes 0..9 of b are the SDP header of packet p"""
    return (select(b, 0) == 0 and select(b, 1) == 0
            and select(b, 2) == (0x87 if p.reply_expected else 0x07)
            and select(b, 3) == p.tag
            and select(b, 4) == p.dest_port * 32 + p.dest_cpu
            and select(b, 5) == p.src_port * 32 + p.src_cpu
            and select(b, 6) == p.dest_y and select(b, 7) == p.dest_x
            and select(b, 8) == p.src_y and select(b, 9) == p.src_x)


def decoded_header_ok(p, b):
    """packet p carries the fields found in the first ten bytes of b (padding ignored)"""
    return (p.reply_expected == (select(b, 2) == 0x87) and p.tag == select(b, 3)
            and p.dest_port == select(b, 4) // 32 and p.dest_cpu == select(b, 4) % 32
            and p.src_port == select(b, 5) // 32 and p.src_cpu == select(b, 5) % 32
            and p.dest_y == select(b, 6) and p.dest_x == select(b, 7)
            and p.src_y == select(b, 8) and p.src_x == select(b, 9))


def le16(b, i):
    return select(b, i) + 256 * select(b, i + 1)


def le32(b, i):
    return select(b, i) + 256 * select(b, i + 1) + 65536 * select(b, i + 2) + 16777216 * select(b, i + 3)


def n_present(p):
    return (0 if p.arg1 is None else 1) + (0 if p.arg2 is None else 1) + (0 if p.arg3 is None else 1)


def leading_args(p):
    return implies(p.arg2 is not None, p.arg1 is not None) and implies(p.arg3 is not None, p.arg2 is not None)


def payload_is(b, start, data):
    return (seq_len(b) == start + seq_len(data)
            and forall_range(0, seq_len(data), lambda i: select(b, start + i) == select(data, i)))


def _mk_sdp(d):
    return SDPPacket(**{k: v for k, v in vars(d).items()})


def _mk_scp(d):
    return SCPPacket(**{k: v for k, v in vars(d).items()})


# ---- encoders ------------------------------------------------------------------------------------
@contract("rig/machine_control/packets.py::SDPPacket.bytestring", variant="sdp")
class SdpBytestring:
    properties = ("C15",)
    params = dict(self=SDP)
    result = BYTES

    def native(self):
        return _mk_sdp(self).bytestring

    def ensures_documented_layout(self, result):
        return header_ok(self, result) and payload_is(result, 10, self.data)


@contract("rig/machine_control/packets.py::SDPPacket.bytestring", variant="scp")
class ScpBytestring:
    properties = ("C15",)
    params = dict(self=SCP)
    result = BYTES
    options = {"no_merge": True}     # one path per set of present arguments: header length static

    def native(self):
        return _mk_scp(self).bytestring

    def requires(self):
        return leading_args(self)

    def ensures_documented_layout(self, result):
        n = n_present(self)
        return (header_ok(self, result)
                and le16(result, 10) == self.cmd_rc and le16(result, 12) == self.seq
                and (n < 1 or le32(result, 14) == unopt(self.arg1))
                and (n < 2 or le32(result, 18) == unopt(self.arg2))
                and (n < 3 or le32(result, 22) == unopt(self.arg3))
                and payload_is(result, 14 + 4 * n, self.data))


@contract("rig/machine_control/packets.py::SDPPacket.bytestring", variant="scp_any_arguments")
class ScpBytestringAnyArguments:
    """"... the command, sequence number, the PRESENT arguments and the payload": also when the arguments present are not the
    leading ones (arg2 without arg1, arg3 alone): each present argument follows the ones present before it, nothing stands in for
    an absent one, the payload follows the last present argument"""
    properties = ("C15",)
    params = dict(self=SCP)
    result = BYTES
    options = {"no_merge": True}

    def native(self):
        return _mk_scp(self).bytestring

    def ensures_present_arguments_in_order_without_gaps(self, result):
        k1 = 0 if self.arg1 is None else 1
        k2 = k1 + (0 if self.arg2 is None else 1)
        k3 = k2 + (0 if self.arg3 is None else 1)
        return (header_ok(self, result)
                and le16(result, 10) == self.cmd_rc and le16(result, 12) == self.seq
                and (self.arg1 is None or le32(result, 14) == unopt(self.arg1))
                and (self.arg2 is None or le32(result, 14 + 4 * k1) == unopt(self.arg2))
                and (self.arg3 is None or le32(result, 14 + 4 * k2) == unopt(self.arg3))
                and payload_is(result, 14 + 4 * k3, self.data))


# ---- decoders ------------------------------------------------------------------------------------
@contract("rig/machine_control/packets.py::SDPPacket.from_bytestring")
class SdpFromBytestring:
    properties = ("C15",)
    params = dict(cls=TConst("class:rig/machine_control/packets.py::SDPPacket"), bytestring=BYTES)
    raises = {"struct.error": None}

    def native(bytestring):
        return SDPPacket.from_bytestring(bytestring)

    def raises_struct__error(bytestring):
        return seq_len(bytestring) < 10

    def ensures_fields_are_the_header_bytes(bytestring, result):
        return seq_len(bytestring) >= 10 and decoded_header_ok(result, bytestring)

    def ensures_rest_is_payload(bytestring, result):
        return payload_is(bytestring, 10, result.data)


def n_taken(length, n_args):
    """arguments taken by the SCP decoder: as many as the caller allows, the data contains, and 3"""
    avail = (length - 14) // 4
    return max(0, min(n_args, avail, 3))


@contract("rig/machine_control/packets.py::SCPPacket.from_bytestring")
class ScpFromBytestring:
    properties = ("C15",)
    params = dict(cls=TConst("class:rig/machine_control/packets.py::SCPPacket"), scp_packet=BYTES, n_args=TInt())
    raises = {"struct.error": None}
    options = {"no_merge": True}

    def native(scp_packet, n_args):
        return SCPPacket.from_bytestring(scp_packet, n_args)

    def raises_struct__error(scp_packet):
        return seq_len(scp_packet) < 14

    def ensures_header(scp_packet, n_args, result):
        return (seq_len(scp_packet) >= 14 and decoded_header_ok(result, scp_packet)
                and result.cmd_rc == le16(scp_packet, 10) and result.seq == le16(scp_packet, 12))

    def ensures_takes_only_the_arguments_allowed_and_present(scp_packet, n_args, result):
        k = n_taken(seq_len(scp_packet), n_args)
        return ((result.arg1 is None) == (k < 1) and (result.arg2 is None) == (k < 2) and (result.arg3 is None) == (k < 3)
                and (k < 1 or unopt(result.arg1) == le32(scp_packet, 14))
                and (k < 2 or unopt(result.arg2) == le32(scp_packet, 18))
                and (k < 3 or unopt(result.arg3) == le32(scp_packet, 22)))

    def ensures_rest_is_payload(scp_packet, n_args, result):
        return payload_is(scp_packet, 14 + 4 * n_taken(seq_len(scp_packet), n_args), result.data)


# ---- round trips: the REAL encoder composed with the REAL decoder ---------------------------------
def roundtrip_sdp(p):
    return SDPPacket.from_bytestring(p.bytestring)


def roundtrip_scp(p, n_args):
    return SCPPacket.from_bytestring(p.bytestring, n_args=n_args)


def same_sdp_fields(p, r):
    return (r.reply_expected == p.reply_expected and r.tag == p.tag and r.dest_port == p.dest_port
            and r.dest_cpu == p.dest_cpu and r.src_port == p.src_port and r.src_cpu == p.src_cpu
            and r.dest_x == p.dest_x and r.dest_y == p.dest_y and r.src_x == p.src_x and r.src_y == p.src_y)


def same_bytes(a, b):
    return seq_len(a) == seq_len(b) and forall_range(0, seq_len(a), lambda i: select(a, i) == select(b, i))


@contract("specs/c15_packets.py::roundtrip_sdp")
class RoundtripSdp:
    properties = ("C15",)
    params = dict(p=SDP)

    def native(p):
        return roundtrip_sdp(_mk_sdp(p))

    def ensures_equal_sdp_fields(p, result):
        return same_sdp_fields(p, result)

    def ensures_equal_payload(p, result):
        return same_bytes(result.data, p.data)


@contract("specs/c15_packets.py::roundtrip_scp")
class RoundtripScp:
    properties = ("C15",)
    params = dict(p=SCP, n_args=TInt(0, 3))
    options = {"no_merge": True}

    def native(p, n_args):
        return roundtrip_scp(_mk_scp(p), n_args)

    def requires(p, n_args):
        return leading_args(p) and n_args == n_present(p)

    def ensures_equal_sdp_fields(p, n_args, result):
        return same_sdp_fields(p, result)

    def ensures_equal_scp_fields(p, n_args, result):
        return (result.cmd_rc == p.cmd_rc and result.seq == p.seq
                and result.arg1 == p.arg1 and result.arg2 == p.arg2 and result.arg3 == p.arg3)

    def ensures_equal_payload(p, n_args, result):
        return same_bytes(result.data, p.data)


# ---- constructors: every field holds the argument of the same name ---------------------------------
_ANY = TInt()


@contract("rig/machine_control/packets.py::SDPPacket.__init__")
class SdpInit:
    properties = ("C15",)
    params = dict(self=TRec("SDPPacket"), reply_expected=TBool(), tag=_ANY, dest_port=_ANY, dest_cpu=_ANY, src_port=_ANY,
                  src_cpu=_ANY, dest_x=_ANY, dest_y=_ANY, src_x=_ANY, src_y=_ANY, data=BYTES)

    def native(reply_expected, tag, dest_port, dest_cpu, src_port, src_cpu, dest_x, dest_y, src_x, src_y, data):
        return {"__native__": True, "result": None, "self_post": SDPPacket(
            reply_expected, tag, dest_port, dest_cpu, src_port, src_cpu, dest_x, dest_y, src_x, src_y, data)}

    def ensures_fields_are_the_arguments(self_post, reply_expected, tag, dest_port, dest_cpu, src_port, src_cpu,
                                         dest_x, dest_y, src_x, src_y, data):
        return (self_post.reply_expected == reply_expected and self_post.tag == tag
                and self_post.dest_port == dest_port and self_post.dest_cpu == dest_cpu
                and self_post.src_port == src_port and self_post.src_cpu == src_cpu
                and self_post.dest_x == dest_x and self_post.dest_y == dest_y
                and self_post.src_x == src_x and self_post.src_y == src_y and same_bytes(self_post.data, data))


@contract("rig/machine_control/packets.py::SCPPacket.__init__")
class ScpInit:
    properties = ("C15",)
    params = dict(self=TRec("SCPPacket"), reply_expected=TBool(), tag=_ANY, dest_port=_ANY, dest_cpu=_ANY, src_port=_ANY,
                  src_cpu=_ANY, dest_x=_ANY, dest_y=_ANY, src_x=_ANY, src_y=_ANY, cmd_rc=_ANY, seq=_ANY,
                  arg1=TOpt(_ANY), arg2=TOpt(_ANY), arg3=TOpt(_ANY), data=BYTES)

    def native(reply_expected, tag, dest_port, dest_cpu, src_port, src_cpu, dest_x, dest_y, src_x, src_y,
               cmd_rc, seq, arg1, arg2, arg3, data):
        return {"__native__": True, "result": None, "self_post": SCPPacket(
            reply_expected, tag, dest_port, dest_cpu, src_port, src_cpu, dest_x, dest_y, src_x, src_y,
            cmd_rc, seq, arg1, arg2, arg3, data)}

    def ensures_sdp_fields_are_the_arguments(self_post, reply_expected, tag, dest_port, dest_cpu, src_port, src_cpu,
                                             dest_x, dest_y, src_x, src_y, data):
        return (self_post.reply_expected == reply_expected and self_post.tag == tag
                and self_post.dest_port == dest_port and self_post.dest_cpu == dest_cpu
                and self_post.src_port == src_port and self_post.src_cpu == src_cpu
                and self_post.dest_x == dest_x and self_post.dest_y == dest_y
                and self_post.src_x == src_x and self_post.src_y == src_y and same_bytes(self_post.data, data))

    def ensures_scp_fields_are_the_arguments(self_post, cmd_rc, seq, arg1, arg2, arg3):
        return (self_post.cmd_rc == cmd_rc and self_post.seq == seq and self_post.arg1 == arg1
                and self_post.arg2 == arg2 and self_post.arg3 == arg3)


# ---- the encoding is a function of the CURRENT fields: build with the real constructor, encode,
# ---- change every field, encode again ---------------------------------------------------------------
def reencode_sdp(a, b):
    p = SDPPacket(a.reply_expected, a.tag, a.dest_port, a.dest_cpu, a.src_port, a.src_cpu,
                  a.dest_x, a.dest_y, a.src_x, a.src_y, a.data)
    first = p.bytestring
    p.reply_expected = b.reply_expected
    p.tag = b.tag
    p.dest_port = b.dest_port
    p.dest_cpu = b.dest_cpu
    p.src_port = b.src_port
    p.src_cpu = b.src_cpu
    p.dest_x = b.dest_x
    p.dest_y = b.dest_y
    p.src_x = b.src_x
    p.src_y = b.src_y
    p.data = b.data
    return (first, p.bytestring)


def reencode_scp(a, b):
    p = SCPPacket(a.reply_expected, a.tag, a.dest_port, a.dest_cpu, a.src_port, a.src_cpu,
                  a.dest_x, a.dest_y, a.src_x, a.src_y, a.cmd_rc, a.seq, a.arg1, a.arg2, a.arg3, a.data)
    first = p.bytestring
    p.reply_expected = b.reply_expected
    p.tag = b.tag
    p.dest_port = b.dest_port
    p.dest_cpu = b.dest_cpu
    p.src_port = b.src_port
    p.src_cpu = b.src_cpu
    p.dest_x = b.dest_x
    p.dest_y = b.dest_y
    p.src_x = b.src_x
    p.src_y = b.src_y
    p.cmd_rc = b.cmd_rc
    p.seq = b.seq
    p.data = b.data
    return (first, p.bytestring)


@contract("specs/c15_packets.py::reencode_sdp")
class ReencodeSdp:
    """a packet built by the real constructor, encoded, updated in every field and encoded again:
    both encodings are the documented layout of the fields held at that moment"""
    properties = ("C15",)
    params = dict(a=SDP, b=SDP)
    result = TTuple(BYTES, BYTES)

    def native(a, b):
        return reencode_sdp(a, b)

    def ensures_first_encoding_is_of_the_constructor_arguments(a, b, result):
        return header_ok(a, result[0]) and payload_is(result[0], 10, a.data)

    def ensures_second_encoding_is_of_the_updated_fields(a, b, result):
        return header_ok(b, result[1]) and payload_is(result[1], 10, b.data)


@contract("specs/c15_packets.py::reencode_scp")
class ReencodeScp:
    properties = ("C15",)
    params = dict(a=SCP, b=SCP)
    result = TTuple(BYTES, BYTES)
    options = {"no_merge": True}

    def native(a, b):
        return reencode_scp(a, b)

    def requires(a, b):
        return leading_args(a)

    def ensures_first_encoding_is_of_the_constructor_arguments(a, b, result):
        return (header_ok(a, result[0]) and le16(result[0], 10) == a.cmd_rc and le16(result[0], 12) == a.seq
                and payload_is(result[0], 14 + 4 * n_present(a), a.data))

    def ensures_second_encoding_is_of_the_updated_fields(a, b, result):
        return (header_ok(b, result[1]) and le16(result[1], 10) == b.cmd_rc and le16(result[1], 12) == b.seq
                and payload_is(result[1], 14 + 4 * n_present(a), b.data))
