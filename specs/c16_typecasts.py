"""C16 -- fixed point conversion (rig/type_casts.py), scalar converters over the reals.
Assumption T9: for the inputs considered, scale*value and value*scale are computed exactly
(multiplication of a double by a power of two is exact unless it overflows/underflows)."""
from pyvc.spec import contract, lemma
from pyvc.values import TInt, TBool, TReal, TTuple
from pyvc.speclib import implies, ite, trunc, real
from rig.type_casts import float_to_fp, fp_to_float


def convert(signed, n_bits, n_frac, value):
    return float_to_fp(signed, n_bits, n_frac)(value)


def convert_two(signed, n_bits, n_frac, v1, v2):
    f = float_to_fp(signed, n_bits, n_frac)
    return (f(v1), f(v2))


def there_and_back(signed, n_bits, n_frac, r):
    return float_to_fp(signed, n_bits, n_frac)(fp_to_float(n_frac)(r))


def fmt_min(signed, n_bits):
    return -(1 << (n_bits - 1)) if signed else 0


def fmt_max(signed, n_bits):
    return (1 << (n_bits - 1)) - 1 if signed else (1 << n_bits) - 1


FMT = dict(signed=TBool(), n_bits=TInt(1, 64), n_frac=TInt(-64, 128))


@contract("specs/c16_typecasts.py::convert")
class Convert:
    properties = ("C16",)
    params = dict(value=TReal(), **FMT)

    def ensures_never_leaves_the_range(signed, n_bits, n_frac, value, result):
        return fmt_min(signed, n_bits) <= result <= fmt_max(signed, n_bits)

    def ensures_scaled_and_truncated_or_nearest_end(signed, n_bits, n_frac, value, result):
        t = trunc(real(value) * 2.0 ** n_frac)
        lo = fmt_min(signed, n_bits)
        hi = fmt_max(signed, n_bits)
        return result == ite(t < lo, lo, ite(t > hi, hi, t))

    def ensures_within_one_step_inside_the_range(signed, n_bits, n_frac, value, result):
        sv = real(value) * 2.0 ** n_frac
        return implies(fmt_min(signed, n_bits) <= sv <= fmt_max(signed, n_bits), -1 < result - sv < 1)


@contract("specs/c16_typecasts.py::convert_two")
class Monotone:
    properties = ("C16",)
    params = dict(v1=TReal(), v2=TReal(), **FMT)

    def requires(signed, n_bits, n_frac, v1, v2):
        return v1 <= v2

    def ensures_monotone(signed, n_bits, n_frac, v1, v2, result):
        return result[0] <= result[1]


@contract("specs/c16_typecasts.py::there_and_back")
class RoundTrip:
    properties = ("C16",)
    params = dict(r=TInt(), **FMT)

    def requires(signed, n_bits, n_frac, r):
        # representable in the format; |r| < 2**53 so that float(r) is r (T9)
        return fmt_min(signed, n_bits) <= r <= fmt_max(signed, n_bits) and -(2 ** 53) < r < 2 ** 53

    def ensures_returns_it_unchanged(signed, n_bits, n_frac, r, result):
        return result == r


# ---- the deprecated word -> float converter (one scenario per word size) -------------------------------------------------------------
from rig.type_casts import fix_to_float   # noqa: E402


def fix8(signed, n_frac, word):
    return fix_to_float(signed, 8, n_frac)(word)


@contract("specs/c16_typecasts.py::fix8")
class DeprecatedFixToFloat8:
    """the deprecated word -> float converter, 8-bit formats: the word read as an unsigned / two's-complement number, scaled by
    2**-n_frac - what fp_to_float gives for that number (over the reals: T9)"""
    properties = ("C16",)
    params = dict(signed=TBool(), n_frac=TInt(0, 8), word=TInt(0, 2 ** 8 - 1))

    def native(signed, n_frac, word):
        if 8 > 53:
            raise __import__("pyvc.replay", fromlist=["OutsideHarness"]).OutsideHarness()      # (floats: not every word is representable)
        return fix8(signed, n_frac, word)

    def requires(signed, n_frac):
        return n_frac + (1 if signed else 0) <= 8

    def ensures_is_the_scaled_reading_of_the_word(signed, n_frac, word, result):
        v = ite(signed and word >= 2 ** (8 - 1), word - 2 ** 8, word)
        return result == real(v) * 2.0 ** (-n_frac)


def fix16(signed, n_frac, word):
    return fix_to_float(signed, 16, n_frac)(word)


@contract("specs/c16_typecasts.py::fix16")
class DeprecatedFixToFloat16:
    """the deprecated word -> float converter, 16-bit formats: the word read as an unsigned / two's-complement number, scaled by
    2**-n_frac - what fp_to_float gives for that number (over the reals: T9)"""
    properties = ("C16",)
    params = dict(signed=TBool(), n_frac=TInt(0, 16), word=TInt(0, 2 ** 16 - 1))

    def native(signed, n_frac, word):
        if 16 > 53:
            raise __import__("pyvc.replay", fromlist=["OutsideHarness"]).OutsideHarness()      # (floats: not every word is representable)
        return fix16(signed, n_frac, word)

    def requires(signed, n_frac):
        return n_frac + (1 if signed else 0) <= 16

    def ensures_is_the_scaled_reading_of_the_word(signed, n_frac, word, result):
        v = ite(signed and word >= 2 ** (16 - 1), word - 2 ** 16, word)
        return result == real(v) * 2.0 ** (-n_frac)


def fix32(signed, n_frac, word):
    return fix_to_float(signed, 32, n_frac)(word)


@contract("specs/c16_typecasts.py::fix32")
class DeprecatedFixToFloat32:
    """the deprecated word -> float converter, 32-bit formats: the word read as an unsigned / two's-complement number, scaled by
    2**-n_frac - what fp_to_float gives for that number (over the reals: T9)"""
    properties = ("C16",)
    params = dict(signed=TBool(), n_frac=TInt(0, 32), word=TInt(0, 2 ** 32 - 1))

    def native(signed, n_frac, word):
        if 32 > 53:
            raise __import__("pyvc.replay", fromlist=["OutsideHarness"]).OutsideHarness()      # (floats: not every word is representable)
        return fix32(signed, n_frac, word)

    def requires(signed, n_frac):
        return n_frac + (1 if signed else 0) <= 32

    def ensures_is_the_scaled_reading_of_the_word(signed, n_frac, word, result):
        v = ite(signed and word >= 2 ** (32 - 1), word - 2 ** 32, word)
        return result == real(v) * 2.0 ** (-n_frac)


def fix64(signed, n_frac, word):
    return fix_to_float(signed, 64, n_frac)(word)


@contract("specs/c16_typecasts.py::fix64")
class DeprecatedFixToFloat64:
    """the deprecated word -> float converter, 64-bit formats: the word read as an unsigned / two's-complement number, scaled by
    2**-n_frac - what fp_to_float gives for that number (over the reals: T9)"""
    properties = ("C16",)
    params = dict(signed=TBool(), n_frac=TInt(0, 64), word=TInt(0, 2 ** 64 - 1))

    def native(signed, n_frac, word):
        if 64 > 53:
            raise __import__("pyvc.replay", fromlist=["OutsideHarness"]).OutsideHarness()      # (floats: not every word is representable)
        return fix64(signed, n_frac, word)

    def requires(signed, n_frac):
        return n_frac + (1 if signed else 0) <= 64

    def ensures_is_the_scaled_reading_of_the_word(signed, n_frac, word, result):
        v = ite(signed and word >= 2 ** (64 - 1), word - 2 ** 64, word)
        return result == real(v) * 2.0 ** (-n_frac)


# ---- the numpy converter's format: limits and element type chosen by its constructor (the element-wise arithmetic is numpy's: bounded) -----
from pyvc.values import TRec as _TRec16   # noqa: E402


@contract("rig/type_casts.py::NumpyFloatToFixConverter.__init__")
class NumpyConverterFormat:
    """the array converter saturates at exactly the limits of the format named - [-2**(n-1), 2**(n-1) - 1] signed, [0, 2**n - 1]
    unsigned -, accepts exactly the widths that are whole numpy element types (8, 16, 32, 64) and remembers the fraction bits given"""
    properties = ("C16",)
    params = dict(self=_TRec16("NumpyFloatToFixConverter"), signed=TBool(), n_bits=TInt(1, 128), n_frac=TInt(-64, 128))
    raises = {"ValueError": None}
    assumptions = ["the element type is looked up in the class's own table of numpy types (opaque objects); 2**k over the four accepted widths"]

    def native(x):
        raise __import__("pyvc.replay", fromlist=["OutsideHarness"]).OutsideHarness()

    def raises_ValueError(n_bits):
        return not (n_bits == 8 or n_bits == 16 or n_bits == 32 or n_bits == 64)

    def ensures_limits_of_the_format_named(self_post, signed, n_bits, n_frac):
        return ((n_bits == 8 or n_bits == 16 or n_bits == 32 or n_bits == 64)
                and self_post.max_value == fmt_max(signed, n_bits) and self_post.min_value == fmt_min(signed, n_bits)
                and self_post.n_frac == n_frac)
