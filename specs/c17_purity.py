"""C17 -- frame contracts: which arguments the library's entry points may modify.  Every parameter not listed under
`modifies` - the object and everything reachable inside it - and every mutable default argument of every function
reached must be left unchanged, for every input.  Discharged by pyvc.frames (a flow- and flag-sensitive may-alias /
effect analysis of the real source with callees inlined, see its docstring); the statement's second half (same
result whatever was called before) is decided by bounded/c17_purity.py."""
from pyvc.spec import frame

MACHINE = "rig/place_and_route/machine.py::Machine"


def _f(target, **attrs):
    attrs.setdefault("properties", ("C17",))
    cls = type("Frame_" + target.split("::")[1].replace(".", "_") + "_" + target.split("/")[-1].split(".")[0], (object,), attrs)
    return frame(target)(cls)


# ---- placement -----------------------------------------------------------------------------------------------------
for _t in ("sequential", "rand", "hilbert", "breadth_first", "rcm"):
    _f("rig/place_and_route/place/%s.py::place" % _t, types={"machine": MACHINE})
_f("rig/place_and_route/place/sa/algorithm.py::place", types={"machine": MACHINE},
   values={"kernel": "rig/place_and_route/place/sa/python_kernel.py::PythonKernel"},
   assumptions=["simulated annealing is analysed with the Python kernel; the C kernel (cffi) is outside any contract"])
_f("rig/place_and_route/place/utils.py::apply_same_chip_constraints")
_f("rig/place_and_route/place/utils.py::apply_reserve_resource_constraint", types={"machine": MACHINE}, modifies=("machine",))
_f("rig/place_and_route/place/utils.py::finalise_same_chip_constraints", modifies=("placements",))
_f("rig/place_and_route/place/utils.py::resources_after_reservation")
_f("rig/place_and_route/place/utils.py::subtract_resources")
_f("rig/place_and_route/place/utils.py::add_resources")
_f("rig/place_and_route/machine.py::Machine.copy", types={"self": MACHINE})
_f("rig/place_and_route/machine.py::Machine.__init__", modifies=("self",))
# ---- allocation, routing, tables --------------------------------------------------------------------------------------
_f("rig/place_and_route/allocate/greedy.py::allocate", types={"machine": MACHINE})
_f("rig/place_and_route/route/ner.py::route", types={"machine": MACHINE})
_f("rig/routing_table/utils.py::routing_tree_to_tables")
# ---- the two wrappers, with their own default arguments (incl. the mutable defaults constraints=[], *_kwargs={}) and a
# ---- Python placer in place of the default (simulated annealing on the C kernel, which no contract reaches)
_PIPE = ("constraints", "place_kwargs", "allocate", "allocate_kwargs", "route", "route_kwargs", "core_resource", "sdram_resource")
_f("rig/place_and_route/wrapper.py::wrapper", types={"machine": MACHINE}, values={"place": "rig/place_and_route/place/hilbert.py::place"},
   use_defaults=_PIPE)       # (reserve_monitor / align_sdram are arguments: every combination of the two flags is a path)
_f("rig/place_and_route/wrapper.py::place_and_route_wrapper", values={"place": "rig/place_and_route/place/hilbert.py::place"},
   use_defaults=_PIPE + ("minimise_tables_methods", "sram_resource"))
# ---- minimisation ---------------------------------------------------------------------------------------------------
_f("rig/routing_table/remove_default_routes.py::minimise")
_f("rig/routing_table/ordered_covering.py::minimise")
_f("rig/routing_table/ordered_covering.py::ordered_covering")
_f("rig/routing_table/minimise.py::minimise_table")
_f("rig/routing_table/minimise.py::minimise_tables")
# ---- contexts --------------------------------------------------------------------------------------------------------
# (a context keeps its OWN dictionary and list: Context.update / before_close change them in place, and the controllers pass
#  the mutable default argument of their constructors down to it)
_f("rig/utils/contexts.py::Context.__init__", modifies=("self",), owned=("context_arguments", "_before_close"), properties=("C17", "C18"))
# ---- the helpers around the pipeline (probing results -> machine model, trees -> tables, table utilities, router internals) -----
for _t in ("rig/place_and_route/utils.py::build_machine", "rig/place_and_route/utils.py::build_core_constraints",
           "rig/place_and_route/utils.py::build_application_map", "rig/place_and_route/utils.py::build_routing_tables",
           "rig/routing_table/utils.py::build_routing_table_target_lengths", "rig/routing_table/utils.py::table_is_subset_of",
           "rig/routing_table/utils.py::expand_entry", "rig/routing_table/utils.py::expand_entries", "rig/routing_table/utils.py::get_common_xs",
           "rig/place_and_route/route/ner.py::ner_net", "rig/place_and_route/route/ner.py::avoid_dead_links",
           "rig/place_and_route/route/ner.py::copy_and_disconnect_tree", "rig/place_and_route/route/ner.py::a_star",
           "rig/machine_control/regions.py::compress_flood_fill_regions"):
    _f(_t)
# ---- bit fields: the queries change nothing at all; definitions, value assignment and layout change only the bit field ---------
# (needs the return summaries for recursive functions of pyvc.frames: the field tree is walked recursively)
for _t in ("get_value", "get_mask", "get_tags", "get_location_and_length", "__eq__", "__repr__"):
    _f("rig/bitfield.py::BitField.%s" % _t)
for _t in ("add_field", "__call__", "assign_fields"):
    _f("rig/bitfield.py::BitField.%s" % _t, modifies=("self",))
