"""C18 -- which connection a command travels over (MachineController._get_connection, with the
real spinn5_local_eth_coord and its lookup table inlined).  The oracle for "the board that holds
the target" is the independent tile model of specs/c19_spinn5.py.  Contextual-argument
resolution over every decorated method is decided by bounded/c18_context.py."""
from pyvc.spec import contract, lemma
from pyvc.values import TInt, TTuple, TOpt, TRec, TMap
from pyvc.speclib import implies, iff, ite, unopt
from specs.c19_spinn5 import cx_of, cy_of

T2 = TTuple(TInt(), TInt())
MC = TRec("MachineController", _width=TOpt(TInt(1, None)), _height=TOpt(TInt(1, None)), _root_chip=TOpt(T2),
          connections=TMap(TOpt(T2), TInt()))


@contract("rig/machine_control/machine_controller.py::MachineController._get_connection")
class GetConnection:
    properties = ("C18",)
    params = dict(self=MC, x=TInt(), y=TInt())

    def native(self, x, y):
        from rig.machine_control.machine_controller import MachineController
        mc = MachineController.__new__(MachineController)
        mc._width, mc._height, mc._root_chip = self._width, self._height, self._root_chip
        mc.connections = dict(self.connections) if isinstance(self.connections, dict) else {None: 0}
        return mc._get_connection(x, y)

    def requires(self):
        return None in self.connections

    def ensures_initial_connection_until_the_machine_is_known(self, x, y, result):
        return implies(self._width is None or self._height is None or self._root_chip is None,
                       result == self.connections[None])

    def ensures_connection_of_the_board_holding_the_target(self, x, y, result):
        # the board's Ethernet chip = (x, y) minus the chip's position on its board (tile model),
        # modulo the machine size; its connection if one is known, else the initial one
        w = unopt(self._width)
        h = unopt(self._height)
        r = unopt(self._root_chip)
        ex = (x - cx_of(x, y, r[0], r[1])) % w
        ey = (y - cy_of(x, y, r[0], r[1])) % h
        return implies(self._width is not None and self._height is not None and self._root_chip is not None,
                       result == ite((ex, ey) in self.connections, self.connections[(ex, ey)], self.connections[None]))
