"""C18 -- which connection a command travels over (MachineController._get_connection, with the
real spinn5_local_eth_coord and its lookup table inlined).  The oracle for "the board that holds
the target" is the independent tile model of specs/c19_spinn5.py.  Contextual-argument
resolution over every decorated method is decided by bounded/c18_context.py."""
from pyvc.spec import contract, lemma
from pyvc.values import TInt, TTuple, TOpt, TRec, TMap
from pyvc.speclib import implies, iff, ite, unopt
from specs.c19_spinn5 import cx_of, cy_of

T2 = TTuple(TInt(), TInt())
MC = TRec("MachineController", _width=TOpt(TInt(1, None)), _height=TOpt(TInt(1, None)), _root_chip=TOpt(T2),
          connections=TMap(TOpt(T2), TInt()))


@contract("rig/machine_control/machine_controller.py::MachineController._get_connection")
class GetConnection:
    properties = ("C18",)
    params = dict(self=MC, x=TInt(), y=TInt())

    def native(self, x, y):
        from rig.machine_control.machine_controller import MachineController
        mc = MachineController.__new__(MachineController)
        mc._width, mc._height, mc._root_chip = self._width, self._height, self._root_chip
        mc.connections = dict(self.connections) if isinstance(self.connections, dict) else {None: 0}
        return mc._get_connection(x, y)

    def requires(self):
        return None in self.connections

    def ensures_initial_connection_until_the_machine_is_known(self, x, y, result):
        return implies(self._width is None or self._height is None or self._root_chip is None,
                       result == self.connections[None])

    def ensures_connection_of_the_board_holding_the_target(self, x, y, result):
        # the board's Ethernet chip = (x, y) minus the chip's position on its board (tile model),
        # modulo the machine size; its connection if one is known, else the initial one
        w = unopt(self._width)
        h = unopt(self._height)
        r = unopt(self._root_chip)
        ex = (x - cx_of(x, y, r[0], r[1])) % w
        ey = (y - cy_of(x, y, r[0], r[1])) % h
        return implies(self._width is not None and self._height is not None and self._root_chip is not None,
                       result == ite((ex, ey) in self.connections, self.connections[(ex, ey)], self.connections[None]))


# ---- the context stack (rig/utils/contexts.py) -----------------------------------------------------------
from pyvc.values import TSeq, TList, TBool, ListV, ObjV, NONE, ExcV   # noqa: E402
from pyvc.speclib import forall_int, forall_range, select, seq_len   # noqa: E402

STACK = TSeq(TInt())                      # the deque of Context objects, by identity


def _callback(E, obj, args, kwargs, st, node):
    """a before_close function: recorded in the trace; it may return or raise"""
    from pyvc.engine import Raised
    s = st.copy()
    s.trace = ListV(s.trace.items + (("callback", obj.fields["n"]),))
    return [(s, NONE, None), (s, Raised(ExcV("CallbackError")), None)]


CB = lambda n: TRec("Callback", n=TConst(n))      # noqa: E731
from pyvc.values import TConst   # noqa: E402


class _Boom(Exception):
    pass


def _run_exit(self, exception_type, fail_at):
    import collections
    from rig.utils.contexts import Context
    stack = collections.deque(range(max(0, len(self.stack) - 1)))
    c = Context({}, stack)
    calls = []

    def mk(i):
        def fn():
            calls.append(("callback", i))
            if i == fail_at:
                raise _Boom()
        return fn
    c.before_close(*[mk(i) for i in range(len(self._before_close))])
    stack.append(c)
    try:
        c.__exit__(exception_type, None, None)
        raised = None
    except _Boom:
        raised = "CallbackError"
    return {"__native__": True, "result": None, "raised": raised, "_trace": calls, "stack_len_after": len(stack)}


@contract("rig/utils/contexts.py::Context.__exit__")
class ContextExit:
    """two registered close functions (the pattern of MachineController.application plus a user hook)"""
    properties = ("C18",)
    params = dict(self=TRec("Context", __id__=TInt(), stack=STACK, _before_close=TList(CB(0), CB(1))),
                  exception_type=TOpt(TInt()), exception_value=TOpt(TInt()), traceback=TOpt(TInt()))
    externals = {"Callback.__call__": _callback}
    raises = {"CallbackError": None}
    assumptions = ["Context objects on the stack are modelled by identity (an integer id); T6: assert statements are executed"]

    def native(self, exception_type):
        return _run_exit(self, exception_type, None)

    def requires(self):
        return seq_len(self.stack) >= 1 and select(self.stack, seq_len(self.stack) - 1) == self.__id__

    def ensures_every_close_function_runs_in_order_whatever_the_exit(self, exception_type, _trace):
        # ... also when the block is left by an exception (exception_type is not None)
        return len(_trace) == 2 and _trace[0] == ("callback", 0) and _trace[1] == ("callback", 1)

    def ensures_restores_exactly_the_previous_stack(self, self_post):
        return (seq_len(self_post.stack) == seq_len(self.stack) - 1
                and forall_range(0, seq_len(self_post.stack), lambda i: select(self_post.stack, i) == select(self.stack, i)))

    def raises_CallbackError(self, self_post, _trace):
        # a failing close function: the functions before it ran, and the context is STILL removed
        return (1 <= len(_trace) <= 2 and _trace[0] == ("callback", 0)
                and seq_len(self_post.stack) == seq_len(self.stack) - 1)


@contract("rig/utils/contexts.py::Context.__enter__")
class ContextEnter:
    properties = ("C18",)
    params = dict(self=TRec("Context", __id__=TInt(), stack=STACK))

    def ensures_pushes_itself(self, self_post):
        n = seq_len(self.stack)
        return (seq_len(self_post.stack) == n + 1 and select(self_post.stack, n) == self.__id__
                and forall_range(0, n, lambda i: select(self_post.stack, i) == select(self.stack, i)))


ARGS = TMap(TInt(), TInt())               # argument name (as an id) -> value
CTX = TRec("Context", context_arguments=ARGS)


@contract("rig/utils/contexts.py::ContextMixin.get_context_arguments")
class GetContextArguments:
    """three nested blocks (the loop over the stack is unrolled: depth 3 is complete for depth <= 3;
    deeper stacks repeat the same update step)"""
    properties = ("C18",)
    params = dict(self=TRec("ContextMixin", _ContextMixin__context_stack=TList(CTX, CTX, CTX)))

    def native(self):
        raise __import__("pyvc.replay", fromlist=["OutsideHarness"]).OutsideHarness()

    def ensures_innermost_block_that_sets_an_argument_wins(self, result):
        c0 = self._ContextMixin__context_stack[0].context_arguments
        c1 = self._ContextMixin__context_stack[1].context_arguments
        c2 = self._ContextMixin__context_stack[2].context_arguments
        return forall_int(lambda k: ((k in result) == (k in c0 or k in c1 or k in c2))
                          and implies(k in c2, result[k] == c2[k])
                          and implies(k in c1 and not (k in c2), result[k] == c1[k])
                          and implies(k in c0 and not (k in c1) and not (k in c2), result[k] == c0[k]))


# ---- what the constructors hand to the context stack: the initial context exactly as given ---------------------------------
# ("... else the method's default, and a command lacking a required one is rejected": an argument the caller's initial context
#  leaves out must stay unset, so the controllers may neither add to nor drop from the dictionary they are given)

def _mixin_init(E, obj, args, kwargs, st, node):
    """ContextMixin.__init__(self, initial_context): the dictionary it is handed is recorded in the ghost g_base"""
    s = st.copy()
    s.env = dict(s.env)
    s.env["g_base"] = args[0] if args else kwargs["initial_context"]
    s.trace = ListV(s.trace.items + (("context_init",),))
    return [(s, NONE, None)]


def _same_map(a, b):
    return forall_int(lambda k: ((k in a) == (k in b)) and implies(k in a, a[k] == b[k]))


@contract("rig/machine_control/bmp_controller.py::BMPController.__init__@seq:0:1")
class BMPControllerInitialContext:
    properties = ("C18",)
    params = dict(self=TRec("BMPController"), initial_context=ARGS, g_base=ARGS)
    fragment_result = ()
    fragment_head = "ContextMixin.__init__(self, initial_context)"
    externals = {"ContextMixin.__init__": _mixin_init}
    assumptions = ["ContextMixin.__init__ is external here (its own contract: ContextMixinInit); the dictionary it receives is the ghost g_base"]

    def native(initial_context):
        raise __import__("pyvc.replay", fromlist=["OutsideHarness"]).OutsideHarness()

    def ensures_the_context_stack_starts_from_exactly_the_dictionary_given(initial_context, g_base_post, _trace):
        return len(_trace) == 1 and _same_map(g_base_post, initial_context)


@contract("rig/machine_control/machine_controller.py::MachineController.__init__@seq:0:1")
class MachineControllerInitialContext:
    properties = ("C18",)
    params = dict(self=TRec("MachineController"), initial_context=ARGS, g_base=ARGS)
    fragment_result = ()
    fragment_head = "ContextMixin.__init__(self, initial_context)"
    externals = {"ContextMixin.__init__": _mixin_init}
    assumptions = BMPControllerInitialContext.assumptions

    def native(initial_context):
        raise __import__("pyvc.replay", fromlist=["OutsideHarness"]).OutsideHarness()

    def ensures_the_context_stack_starts_from_exactly_the_dictionary_given(initial_context, g_base_post, _trace):
        return len(_trace) == 1 and _same_map(g_base_post, initial_context)


@contract("rig/utils/contexts.py::Context.__init__")
class ContextInit:
    properties = ("C18",)
    params = dict(self=TRec("Context"), context_arguments=ARGS, stack=TOpt(TInt()))

    def native(context_arguments):
        raise __import__("pyvc.replay", fromlist=["OutsideHarness"]).OutsideHarness()

    def ensures_holds_the_arguments_given_and_nothing_else(context_arguments, self_post):
        return _same_map(self_post.context_arguments, context_arguments)

    def ensures_no_close_functions_yet(self_post):
        return seq_len(self_post._before_close) == 0


# ---- BMPController._send_scp: the connection a board's command travels over, and what is handed to it ---------------------
CONN = TRec("Conn", __id__=TInt())


def _conn_get(E, obj, args, kwargs, st, node):
    """self.connections.get(key, None): the board's own connection (3-tuple key: ghost g_board_conn) or the frame's (2-tuple
    key: ghost g_frame_conn); the lookups are recorded"""
    key = args[0]
    s = st.copy()
    s.trace = ListV(s.trace.items + (("lookup",) + tuple(key),))
    return [(s, st.env["g_board_conn" if len(key) == 3 else "g_frame_conn"], None)]


def _conn_send_scp(E, obj, args, kwargs, st, node):
    s = st.copy()
    s.trace = ListV(s.trace.items + (("send_scp", obj.fields["__id__"]) + tuple(args) + tuple(sorted(kwargs.items())),))
    return [(s, st.env["g_reply"], None)]


@contract("rig/machine_control/bmp_controller.py::BMPController._send_scp")
class BMPSendScp:
    """called as _send_scp(cabinet, frame, board, cmd, arg1, expected_args=...)"""
    properties = ("C18",)
    params = dict(self=TRec("BMPController", connections=TRec("Dict"), _scp_data_length=TOpt(TInt(1, None))),
                  cabinet=TInt(0, None), frame=TInt(0, None), board=TInt(0, 31), args=TTuple(TInt(), TInt()),
                  g_expected=TInt(0, 3), g_board_conn=TOpt(CONN), g_frame_conn=TOpt(CONN), g_reply=TInt())
    externals = {"Dict.get": _conn_get, "Conn.send_scp": _conn_send_scp}
    options = {"kwargs": {"expected_args": "g_expected"}}
    raises = {"AssertionError": None}
    assumptions = ["the connections dictionary and the connections are opaque: lookups and the command handed over are recorded; T6: assert statements are executed"]

    def native(cabinet):
        raise __import__("pyvc.replay", fromlist=["OutsideHarness"]).OutsideHarness()

    def raises_AssertionError(g_board_conn, g_frame_conn, _trace):
        # no connection to the board nor to its frame: refused before anything is sent
        return g_board_conn is None and g_frame_conn is None and all(t[0] == "lookup" for t in _trace)

    def ensures_goes_over_the_boards_own_connection_else_the_frames(self, cabinet, frame, board, args, g_expected, g_board_conn, g_frame_conn, g_reply, result, _trace):
        conn = unopt(g_board_conn).__id__ if g_board_conn is not None else unopt(g_frame_conn).__id__
        length = 512 if self._scp_data_length is None else unopt(self._scp_data_length)     # (512: the longest version reply, until the buffer size is known)
        sends = [t for t in _trace if t[0] == "send_scp"]
        return (result == g_reply and _trace[0] == ("lookup", cabinet, frame, board)
                and len(sends) == 1
                and sends[0][1] == conn and sends[0][2] == length and sends[0][3] == 0 and sends[0][4] == 0 and sends[0][5] == board
                and sends[0][6] == args[0] and sends[0][7] == args[1]
                and sends[0][8] == ("expected_args", g_expected))


def _get_conn_ext(E, obj, args, kwargs, st, node):
    """self._get_connection(x, y) (its own contract: GetConnection): recorded; returns the ghost connection g_conn"""
    s = st.copy()
    s.trace = ListV(s.trace.items + (("connection_for",) + tuple(args),))
    return [(s, st.env["g_conn"], None)]


@contract("rig/machine_control/machine_controller.py::MachineController._send_scp")
class MCSendScp:
    """called as _send_scp(x, y, p, cmd, arg1, expected_args=...): the command goes, with exactly these coordinates and
    arguments, over the connection chosen for chip (x, y)"""
    properties = ("C18",)
    params = dict(self=TRec("MachineController", _scp_data_length=TOpt(TInt(1, None))), x=TInt(0, 255), y=TInt(0, 255), p=TInt(0, 17),
                  args=TTuple(TInt(), TInt()), g_expected=TInt(0, 3), g_conn=CONN, g_reply=TInt())
    externals = {"MachineController._get_connection": _get_conn_ext, "Conn.send_scp": _conn_send_scp}
    options = {"kwargs": {"expected_args": "g_expected"}}
    assumptions = ["_get_connection is external here (contract GetConnection); the connection is opaque: the command handed over is recorded"]

    def native(x):
        raise __import__("pyvc.replay", fromlist=["OutsideHarness"]).OutsideHarness()

    def ensures_sent_over_the_connection_of_the_target_chip_with_the_resolved_coordinates(self, x, y, p, args, g_expected, g_conn, g_reply, result, _trace):
        length = 512 if self._scp_data_length is None else unopt(self._scp_data_length)
        return (result == g_reply and len(_trace) == 2 and _trace[0] == ("connection_for", x, y)
                and _trace[1] == ("send_scp", g_conn.__id__, length, x, y, p, args[0], args[1], ("expected_args", g_expected)))


@contract("rig/utils/contexts.py::Context.before_close")
class ContextBeforeClose:
    """registering close functions ADDS them, in order, after the ones already registered (MachineController.application()
    registers the stop signal; a user hook registered afterwards must not displace it)"""
    properties = ("C18",)
    params = dict(self=TRec("Context", _before_close=TList(CB(0))), args=TTuple(CB(1), CB(2)))

    def native(args):
        raise __import__("pyvc.replay", fromlist=["OutsideHarness"]).OutsideHarness()

    def ensures_appended_after_the_functions_already_registered(self, self_post):
        return (len(self_post._before_close) == 3 and self_post._before_close[0].n == 0
                and self_post._before_close[1].n == 1 and self_post._before_close[2].n == 2)


from pyvc.values import TReal   # noqa: E402
import z3   # noqa: E402

# ---- discover_connections: one Ethernet chip position (fragment of its loop) -------------------------------------------------------


def _wc_contains(E, obj, args, kwargs, st, node):
    return [(st, st.env["g_working"], None)]


def _conns_contains(E, obj, args, kwargs, st, node):
    return [(st, st.env["g_connected"], None)]


def _get_ip(E, obj, args, kwargs, st, node):
    from pyvc.engine import Raised
    s = st.copy()
    s.trace = ListV(s.trace.items + (("get_ip_address",) + tuple(args),))
    ok = s.assume(z3.Not(st.env["g_ip_fails"]))
    bad = s.assume(st.env["g_ip_fails"])
    return [(ok, st.env["g_ip"], None), (bad, Raised(ExcV("SCPError", ())), None)]


def _new_conn(E, args, kwargs, st, node):
    s = st.copy()
    s.trace = ListV(s.trace.items + (("connection_made",) + tuple(args) + tuple(sorted(kwargs.items())),))
    return [(s, ObjV("SCPConnection", {"ident": 7}))]


def _conns_set(E, obj, args, kwargs, st, node):
    s = st.copy()
    s.trace = ListV(s.trace.items + (("connection_kept_for", args[0]),))
    return [(s, NONE, None)]


def _conns_pop(E, obj, args, kwargs, st, node):
    s = st.copy()
    s.trace = ListV(s.trace.items + (("connection_dropped_for", args[0]),))
    return [(s, ObjV("SCPConnection", {"ident": 7}), None)]


def _conn_close(E, obj, args, kwargs, st, node):
    s = st.copy()
    s.trace = ListV(s.trace.items + (("closed",),))
    return [(s, NONE, None)]


def _get_version(E, obj, args, kwargs, st, node):
    from pyvc.engine import Raised
    s = st.copy()
    s.trace = ListV(s.trace.items + (("tested",) + tuple(args),))
    ok = s.assume(z3.Not(st.env["g_test_fails"]))
    bad = s.assume(st.env["g_test_fails"])
    return [(ok, NONE, None), (bad, Raised(ExcV("SCPError", ())), None)]


@contract("rig/machine_control/machine_controller.py::MachineController.discover_connections@forbody:0")
class DiscoverOneBoard:
    """one Ethernet chip position: nothing is done for a chip that is not working or already has a connection; otherwise its
    address is asked for - a chip that cannot say, or has none (link down), gets no connection - and a connection to exactly
    that address is made with the CONTROLLER'S OWN port, number of tries and timeout, filed under exactly this chip, and tried
    once with a command to this chip: it is counted when the command is answered and dropped and closed when it is not"""
    properties = ("C18", "C06")
    params = dict(self=TRec("MachineController", scp_port=TInt(0, 65535), n_tries=TInt(1, None), timeout=TReal(), connections=TRec("Connections")),
                  x=TInt(0, 255), y=TInt(0, 255), working_chips=TRec("WorkingChips"), num_new_connections=TInt(0, None),
                  g_working=TBool(), g_connected=TBool(), g_ip=TOpt(TInt()), g_ip_fails=TBool(), g_test_fails=TBool())
    fragment_result = ("num_new_connections",)
    fragment_head = "for x, y in spinn5_eth_coords(self._width, self._height, *self.root_chip):"
    externals = {"WorkingChips.__contains__": _wc_contains, "Connections.__contains__": _conns_contains, "MachineController.get_ip_address": _get_ip,
                 "class:SCPConnection": _new_conn, "Connections.__setitem__": _conns_set, "Connections.pop": _conns_pop, "SCPConnection.close": _conn_close,
                 "MachineController.get_software_version": _get_version}
    options = {"no_merge": True}
    assumptions = ["the set of working chips, the controller's connections and the probes (get_ip_address, get_software_version) are opaque: membership, "
                   "answers and failures are ghosts, what is made / filed / dropped / closed is recorded"]

    def native(x):
        raise __import__("pyvc.replay", fromlist=["OutsideHarness"]).OutsideHarness()

    def ensures_connection_made_only_for_a_working_unconnected_chip_with_an_address_and_with_the_controllers_own_settings(
            self, x, y, num_new_connections, g_working, g_connected, g_ip, g_ip_fails, g_test_fails, result, _trace):
        wanted = g_working and not g_connected
        n = len(_trace)
        return (implies(not wanted, n == 0 and result[0] == num_new_connections)
                and implies(wanted, n >= 1 and _trace[0] == ("get_ip_address", x, y))
                and implies(wanted and (g_ip_fails or g_ip is None), n == 1 and result[0] == num_new_connections)
                and implies(wanted and not g_ip_fails and g_ip is not None,
                            n >= 4 and _trace[1] == ("connection_made", unopt_(g_ip), self.scp_port, self.n_tries, self.timeout)
                            and _trace[2] == ("connection_kept_for", (x, y)) and _trace[3] == ("tested", x, y, 0)
                            and implies(not g_test_fails, n == 4 and result[0] == num_new_connections + 1)
                            and implies(g_test_fails, n == 6 and _trace[4] == ("connection_dropped_for", (x, y)) and _trace[5] == ("closed",)
                                        and result[0] == num_new_connections)))


def unopt_(x):
    return x



def _self_call(E, obj, args, kwargs, st, node):
    """controller(**context_args): a new context block holding exactly those arguments (Context.__init__ / get_new_context)"""
    s = st.copy()
    s.trace = ListV(s.trace.items + (("new_block", tuple(args), tuple(sorted(kwargs.items()))),))
    return [(s, ObjV("Context", {"ident": 1}), None)]


def _before_close(E, obj, args, kwargs, st, node):
    """context.before_close(f): f is recorded by what it does when called (here: in the state of the registration)"""
    out = []
    for f in args:
        for s2, _ in E.call(f, [], {}, st, node):
            s3 = s2.copy()
            s3.trace = ListV(s3.trace.items + (("registered_to_run_before_the_block_closes",),))
            out.append((s3, NONE, None))
    return out


def _send_signal(E, obj, args, kwargs, st, node):
    s = st.copy()
    s.trace = ListV(s.trace.items + (("send_signal", tuple(args), tuple(sorted(kwargs.items()))),))
    return [(s, NONE, None)]


@contract("rig/machine_control/machine_controller.py::MachineController.application")
class ApplicationBlock:
    """`with controller.application(n):` is a block that sets exactly the application id, with ONE close function - run (by
    Context.__exit__, whatever the exit: its own contract) before the block is taken off the stack - that sends the `stop`
    signal without naming an application: so the signal goes to the application of this very block"""
    properties = ("C18",)
    params = dict(self=TRec("MachineController"), app_id=TInt(0, 255))
    externals = {"MachineController.__call__": _self_call, "Context.before_close": _before_close, "MachineController.send_signal": _send_signal}
    options = {"decorators": {"use_contextual_arguments": "identity"}}
    assumptions = ["controller(...) and Context.before_close are recorded (their contracts: Context.__init__, ContextBeforeClose); the close function is "
                   "run once at registration to see what it does"]

    def native(app_id):
        raise __import__("pyvc.replay", fromlist=["OutsideHarness"]).OutsideHarness()

    def ensures_a_block_for_this_application_that_stops_it_when_left(app_id, result, _trace):
        return (len(_trace) == 3 and _trace[0] == ("new_block", (), (("app_id", app_id),))
                and _trace[1] == ("send_signal", ("stop",), ()) and _trace[2] == ("registered_to_run_before_the_block_closes",)
                and result.ident == 1)


# ---- the BMP commands that name boards by a mask (set_power, set_led) ---------------------------------------------------------------
BOARD = TInt(0, 23)


def _bmp_send(E, obj, args, kwargs, st, node):
    s = st.copy()
    s.trace = ListV(s.trace.items + (("bmp_command",) + tuple(args[:3]) + (tuple(sorted((k, v) for k, v in kwargs.items() if k in ("arg1", "arg2"))),),))
    return [(s, NONE, None)]


def _sleep18(E, args, kwargs, st, node):
    return [(st, NONE)]


@contract("rig/machine_control/bmp_controller.py::BMPController.set_power", variant="one_board")
class SetPowerOneBoard:
    """power command for one board: addressed to board 0 of the frame, the board named by its own bit of the mask"""
    properties = ("C18",)
    params = dict(self=TRec("BMPController"), state=TBool(), cabinet=TInt(0, 255), frame=TInt(0, 255), board=BOARD)
    externals = {"BMPController._send_scp": _bmp_send, "sleep": _sleep18}
    options = {"decorators": {"use_contextual_arguments": "identity"}, "no_merge": True}
    assumptions = ["BMPController._send_scp is recorded (its contract: BmpSendScp); the delays are left at their defaults"]

    def native(state):
        raise __import__("pyvc.replay", fromlist=["OutsideHarness"]).OutsideHarness()

    def ensures_the_frames_controller_is_told_exactly_this_board(state, cabinet, frame, board, _trace):
        return (len(_trace) == 1 and _trace[0][1] == cabinet and _trace[0][2] == frame and _trace[0][3] == 0
                and _trace[0][4] == (("arg1", 1 if state else 0), ("arg2", 2 ** board)))


@contract("rig/machine_control/bmp_controller.py::BMPController.set_power", variant="three_boards")
class SetPowerThreeBoards:
    """power command for several boards given in the caller's own order: one command, every board's bit in the mask"""
    properties = ("C18",)
    params = dict(self=TRec("BMPController"), state=TBool(), cabinet=TInt(0, 255), frame=TInt(0, 255), board=TList(BOARD, BOARD, BOARD))
    externals = {"BMPController._send_scp": _bmp_send, "sleep": _sleep18}
    options = {"decorators": {"use_contextual_arguments": "identity"}, "no_merge": True}

    def native(state):
        raise __import__("pyvc.replay", fromlist=["OutsideHarness"]).OutsideHarness()

    def requires(board):
        return board[0] != board[1] and board[1] != board[2] and board[0] != board[2]

    def ensures_every_board_named_is_in_the_mask(state, cabinet, frame, board, _trace):
        return (len(_trace) == 1 and _trace[0][1] == cabinet and _trace[0][2] == frame and _trace[0][3] == 0
                and _trace[0][4] == (("arg1", 1 if state else 0), ("arg2", 2 ** board[0] + 2 ** board[1] + 2 ** board[2])))


from pyvc.values import TOpt   # noqa: E402


@contract("rig/machine_control/bmp_controller.py::BMPController.set_led", variant="one_board")
class SetLedOneBoard:
    """one LED of one board: the command goes to THAT board, with its bit as the mask and the action (3 on, 2 off, 1 toggle when
    none is given) in the LED's two bits"""
    properties = ("C18",)
    params = dict(self=TRec("BMPController"), led=TInt(0, 7), action=TOpt(TBool()), cabinet=TInt(0, 255), frame=TInt(0, 255), board=BOARD)
    externals = {"BMPController._send_scp": _bmp_send}
    options = {"decorators": {"use_contextual_arguments": "identity"}, "no_merge": True, "int_class": "rig/machine_control/consts.py::LEDAction"}

    def native(led):
        raise __import__("pyvc.replay", fromlist=["OutsideHarness"]).OutsideHarness()

    def ensures_sent_to_the_board_named(led, action, cabinet, frame, board, _trace):
        code = 1 if action is None else (3 if action else 2)
        return (len(_trace) == 1 and _trace[0][1] == cabinet and _trace[0][2] == frame and _trace[0][3] == board
                and _trace[0][4] == (("arg1", code * 2 ** (2 * led)), ("arg2", 2 ** board)))


@contract("rig/machine_control/bmp_controller.py::BMPController.set_led", variant="three_boards")
class SetLedThreeBoards:
    """several boards in the caller's own order: ONE command, sent to the FIRST board named, with every board's bit in the mask"""
    properties = ("C18",)
    params = dict(self=TRec("BMPController"), led=TInt(0, 7), action=TOpt(TBool()), cabinet=TInt(0, 255), frame=TInt(0, 255),
                  board=TList(BOARD, BOARD, BOARD))
    externals = {"BMPController._send_scp": _bmp_send}
    options = {"decorators": {"use_contextual_arguments": "identity"}, "no_merge": True, "int_class": "rig/machine_control/consts.py::LEDAction"}

    def native(led):
        raise __import__("pyvc.replay", fromlist=["OutsideHarness"]).OutsideHarness()

    def requires(board):
        return board[0] != board[1] and board[1] != board[2] and board[0] != board[2]

    def ensures_sent_once_to_the_first_board_with_the_mask_of_all(led, action, cabinet, frame, board, _trace):
        code = 1 if action is None else (3 if action else 2)
        return (len(_trace) == 1 and _trace[0][1] == cabinet and _trace[0][2] == frame and _trace[0][3] == board[0]
                and _trace[0][4] == (("arg1", code * 2 ** (2 * led)), ("arg2", 2 ** board[0] + 2 ** board[1] + 2 ** board[2])))


from rig.utils.contexts import ContextMixin, Required   # noqa: E402

# ---- the wrapper built by ContextMixin.use_contextual_arguments: the REAL decorator and the REAL closure f_, executed on scenarios ------
# A controller method  m(self, a, x=Required, y=Required, p=0)  with the keyword-only contextual argument app_id=Required; the blocks in
# force are what get_context_arguments() returns (its own contract: innermost block wins): here x, app_id and one name the method
# does not take.  What the introspection helper reports for m is assumed (T: inspect).


def _target(self, a, x=Required, y=Required, p=0, **kwargs):
    """stands for a controller method declared with contextual arguments (never executed: recorded)"""


def _wrapped():
    return ContextMixin.use_contextual_arguments(app_id=Required)(_target)


def call_with_y(obj, a, ky):
    return _wrapped()(obj, a, y=ky)


def call_with_everything(obj, a, kx, ky, kp, kapp):
    return _wrapped()(obj, a, x=kx, y=ky, p=kp, app_id=kapp)


def call_positionally(obj, a, px, py):
    return _wrapped()(obj, a, px, py)


def call_without_y(obj, a):
    return _wrapped()(obj, a)


def _argspec(E, args, kwargs, st, node):
    from pyvc.values import ListV as _L
    return [(st, (_L(("self", "a", "x", "y", "p")), NONE, "kwargs", (E.lift(Required), E.lift(Required), 0)))]


def _ctx_args(E, obj, args, kwargs, st, node):
    from pyvc.engine import ConstDict
    ent = E.options["entry"]
    if "g_cx" not in ent:
        return [(st, ConstDict([]), None)]          # (the scenario without any block)
    return [(st, ConstDict([("x", ent["g_cx"]), ("cabinet", ent["g_other"]), ("p", ent["g_cp"]), ("app_id", ent["g_capp"])]), None)]


def _target_rec(E, args, kwargs, st, node):
    s = st.copy()
    s.trace = ListV(s.trace.items + (("called", tuple(args[1:]), tuple(sorted(kwargs.items()))),))
    return [(s, NONE)]


_WRAP_EXT = {"_getargspec": _argspec, "Controller.get_context_arguments": _ctx_args, "def:_target": _target_rec}
_WRAP_ASSUME = ["what inspect reports for the method (names, defaults) is given; get_context_arguments() returns the blocks' values (own contract); "
                "the method itself is recorded"]
_G = dict(g_cx=TInt(), g_capp=TInt(), g_other=TInt(), g_cp=TInt())


@contract("specs/c18_context.py::call_with_y")
class WrapperCallThenBlocksThenDefault:
    """m(a, y=ky) inside blocks that set x, p and app_id: y from the call, x, p and app_id from the blocks (the block's p beats
    the method's default); a name the blocks set but the method does not take is not passed on"""
    properties = ("C18",)
    params = dict(obj=TRec("Controller"), a=TInt(), ky=TInt(), **_G)
    externals = _WRAP_EXT
    raises = {"TypeError": None}
    assumptions = _WRAP_ASSUME

    def native(a):
        raise __import__("pyvc.replay", fromlist=["OutsideHarness"]).OutsideHarness()

    def raises_TypeError(a):
        return False

    def ensures_call_then_blocks_then_default(a, ky, g_cx, g_capp, g_cp, _trace):
        return len(_trace) == 1 and _trace[0] == ("called", (a,), (("app_id", g_capp), ("p", g_cp), ("x", g_cx), ("y", ky)))


@contract("specs/c18_context.py::call_with_everything")
class WrapperCallBeatsBlocks:
    """every argument given with the call: the blocks' values are not used at all - whatever the values are (also a value
    equal to the method's default, 0, or equal to what a block says)"""
    properties = ("C18",)
    params = dict(obj=TRec("Controller"), a=TInt(), kx=TInt(), ky=TInt(), kp=TInt(), kapp=TInt(), **_G)
    externals = _WRAP_EXT
    raises = {"TypeError": None}
    assumptions = _WRAP_ASSUME

    def native(a):
        raise __import__("pyvc.replay", fromlist=["OutsideHarness"]).OutsideHarness()

    def raises_TypeError(a):
        return False

    def ensures_the_calls_own_values(a, kx, ky, kp, kapp, _trace):
        return len(_trace) == 1 and _trace[0] == ("called", (a,), (("app_id", kapp), ("p", kp), ("x", kx), ("y", ky)))


@contract("specs/c18_context.py::call_positionally")
class WrapperPositionalArguments:
    """x and y given positionally: passed on positionally, not overridden by the blocks' x; p and app_id from the blocks"""
    properties = ("C18",)
    params = dict(obj=TRec("Controller"), a=TInt(), px=TInt(), py=TInt(), **_G)
    externals = _WRAP_EXT
    raises = {"TypeError": None}
    assumptions = _WRAP_ASSUME

    def native(a):
        raise __import__("pyvc.replay", fromlist=["OutsideHarness"]).OutsideHarness()

    def raises_TypeError(a):
        return False

    def ensures_positional_values_kept(a, px, py, g_capp, g_cp, _trace):
        return len(_trace) == 1 and _trace[0] == ("called", (a, px, py), (("app_id", g_capp), ("p", g_cp)))


@contract("specs/c18_context.py::call_without_y")
class WrapperMissingRequired:
    """y comes from nowhere (not the call, not a block, no default): the command is refused - TypeError - and the method not called"""
    properties = ("C18",)
    params = dict(obj=TRec("Controller"), a=TInt(), **_G)
    externals = _WRAP_EXT
    raises = {"TypeError": None}
    assumptions = _WRAP_ASSUME

    def native(a):
        raise __import__("pyvc.replay", fromlist=["OutsideHarness"]).OutsideHarness()

    def raises_TypeError(_trace):
        return len(_trace) == 0

    def ensures_never_returns(a):
        return False


def call_outside_any_block(obj, a, kx, ky, kapp):
    return _wrapped()(obj, a, x=kx, y=ky, app_id=kapp)


@contract("specs/c18_context.py::call_outside_any_block")
class WrapperDefaultWhenNothingElse:
    """no block in force: what the call gives is used and p takes the method's own default"""
    properties = ("C18",)
    params = dict(obj=TRec("Controller"), a=TInt(), kx=TInt(), ky=TInt(), kapp=TInt())
    externals = _WRAP_EXT
    raises = {"TypeError": None}
    assumptions = _WRAP_ASSUME

    def native(a):
        raise __import__("pyvc.replay", fromlist=["OutsideHarness"]).OutsideHarness()

    def raises_TypeError(a):
        return False

    def ensures_default_for_what_nobody_gives(a, kx, ky, kapp, _trace):
        return len(_trace) == 1 and _trace[0] == ("called", (a,), (("app_id", kapp), ("p", 0), ("x", kx), ("y", ky)))


# ---- the block factories: `with controller(x=..., y=...)` makes a context of exactly the arguments given --------------------------------
def _new_ctx_rec(E, obj, args, kwargs, st, node):
    s = st.copy()
    s.trace = ListV(s.trace.items + (("new_context", tuple(args), tuple(sorted(kwargs.items()))),))
    return [(s, ObjV("Context", {"ident": 31}), None)]


@contract("rig/machine_control/bmp_controller.py::BMPController.__call__")
class BMPBlockFactory:
    """`with bc(cabinet=c, frame=f, board=b)`: the new block carries exactly the three values given - ZERO included (cabinet 0,
    frame 0, board 0 are the usual ones) - and nothing else"""
    properties = ("C18",)
    params = dict(self=TRec("BMPController"), g_c=TInt(0, 255), g_f=TInt(0, 255), g_b=TInt(0, 23))
    externals = {"BMPController.get_new_context": _new_ctx_rec}
    options = {"kwargs": {"cabinet": "g_c", "frame": "g_f", "board": "g_b"}}
    assumptions = ["get_new_context (own contract NewContext) is recorded"]

    def native(x):
        raise __import__("pyvc.replay", fromlist=["OutsideHarness"]).OutsideHarness()

    def ensures_exactly_the_arguments_given(g_c, g_f, g_b, result, _trace):
        return (len(_trace) == 1 and _trace[0] == ("new_context", (), (("board", g_b), ("cabinet", g_c), ("frame", g_f)))
                and result.ident == 31)


@contract("rig/machine_control/machine_controller.py::MachineController.__call__")
class MCBlockFactory:
    """`with mc(x=.., y=.., p=.., app_id=..)`: the new block carries exactly the values given - zero included - and nothing else"""
    properties = ("C18",)
    params = dict(self=TRec("MachineController"), g_x=TInt(0, 255), g_y=TInt(0, 255), g_p=TInt(0, 17), g_app=TInt(0, 255))
    externals = {"MachineController.get_new_context": _new_ctx_rec}
    options = {"kwargs": {"x": "g_x", "y": "g_y", "p": "g_p", "app_id": "g_app"}}
    assumptions = ["get_new_context (own contract NewContext) is recorded"]

    def native(x):
        raise __import__("pyvc.replay", fromlist=["OutsideHarness"]).OutsideHarness()

    def ensures_exactly_the_arguments_given(g_x, g_y, g_p, g_app, result, _trace):
        return (len(_trace) == 1 and _trace[0] == ("new_context", (), (("app_id", g_app), ("p", g_p), ("x", g_x), ("y", g_y)))
                and result.ident == 31)


def _ctx_class_rec(E, args, kwargs, st, node):
    s = st.copy()
    s.trace = ListV(s.trace.items + (("Context", args[1].fields["ident"] if isinstance(args[1], ObjV) else -1),))
    return [(s, ObjV("Context", {"ident": 32, "given": args[0]}))]


@contract("rig/utils/contexts.py::ContextMixin.get_new_context")
class NewContext:
    """the context made for a block holds exactly the arguments given and is tied to THIS object's own stack (entering it pushes
    there, not on another controller's)"""
    properties = ("C18", "C17")
    params = dict(self=TRec("ContextMixin", _ContextMixin__context_stack=TRec("Stack", ident=TInt(0, 9))), g_x=TInt(0, 255), g_p=TInt(0, 17))
    externals = {"class:Context": _ctx_class_rec}
    options = {"kwargs": {"x": "g_x", "p": "g_p"}}
    assumptions = ["the Context constructor (own contract ContextInit) is recorded: its first argument is kept, its second identified"]

    def native(x):
        raise __import__("pyvc.replay", fromlist=["OutsideHarness"]).OutsideHarness()

    def ensures_given_arguments_on_this_objects_stack(self, g_x, g_p, result, _trace):
        return (len(_trace) == 1 and _trace[0] == ("Context", self._ContextMixin__context_stack.ident)
                and result.given["x"] == g_x and result.given["p"] == g_p and len(result.given) == 2)


def _ctx_update_rec(E, obj, args, kwargs, st, node):
    s = st.copy()
    s.trace = ListV(s.trace.items + (("update", obj.fields["ident"], args[0]),))
    return [(s, NONE, obj)]


_CTXI = TRec("Context", ident=TInt(0, 99))


@contract("rig/utils/contexts.py::ContextMixin.update_current_context")
class UpdateCurrentContext:
    """updating the current context changes the INNERMOST block in force (the last one on this object's stack) - with exactly the
    arguments given - and no outer block, so the values come back when the block is left"""
    properties = ("C18",)
    params = dict(self=TRec("ContextMixin", _ContextMixin__context_stack=TList(_CTXI, _CTXI, _CTXI)), g_x=TInt(0, 255), g_app=TInt(0, 255))
    externals = {"Context.update": _ctx_update_rec}
    options = {"kwargs": {"x": "g_x", "app_id": "g_app"}}
    assumptions = ["Context.update (a dict.update of the block's own dictionary: ownership contract of Context.__init__) is recorded with its receiver"]

    def native(x):
        raise __import__("pyvc.replay", fromlist=["OutsideHarness"]).OutsideHarness()

    def ensures_only_the_innermost_block_is_updated_with_the_arguments_given(self, g_x, g_app, _trace):
        return (len(_trace) == 1 and _trace[0][0] == "update" and _trace[0][1] == self._ContextMixin__context_stack[2].ident
                and _trace[0][2]["x"] == g_x and _trace[0][2]["app_id"] == g_app and len(_trace[0][2]) == 2)


# ---- the public send_scp: the resolved x, y, p leave the keyword arguments and lead the call; everything else is handed on --------------
def _sendscp_rec(E, obj, args, kwargs, st, node):
    s = st.copy()
    s.trace = ListV(s.trace.items + (("_send_scp", tuple(args), tuple(sorted(kwargs.items()))),))
    return [(s, st.env["g_reply"], None)]


@contract("rig/machine_control/machine_controller.py::MachineController.send_scp")
class MCPublicSendScp:
    """send_scp(cmd, arg1, x=.., y=.., p=.., expected_args=..): the command goes to exactly the (x, y, p) resolved for the call, the
    positional arguments follow unchanged and every other keyword argument is handed on as given - x, y, p themselves are not
    passed twice"""
    properties = ("C18",)
    params = dict(self=TRec("MachineController"), args=TTuple(TInt(), TInt()), g_x=TInt(0, 255), g_y=TInt(0, 255), g_p=TInt(0, 17),
                  g_expected=TInt(0, 3), g_reply=TInt())
    externals = {"MachineController._send_scp": _sendscp_rec}
    options = {"decorators": {"use_contextual_arguments": "identity"}, "kwargs": {"x": "g_x", "y": "g_y", "p": "g_p", "expected_args": "g_expected"}}
    assumptions = ["use_contextual_arguments as the identity: the wrapper (scenarios call_with_y ...) has put the resolved x, y, p among the keyword "
                   "arguments; _send_scp (contract MCSendScp) is recorded"]

    def native(x):
        raise __import__("pyvc.replay", fromlist=["OutsideHarness"]).OutsideHarness()

    def ensures_resolved_coordinates_lead_and_the_rest_is_handed_on(args, g_x, g_y, g_p, g_expected, g_reply, result, _trace):
        return (result == g_reply and len(_trace) == 1
                and _trace[0] == ("_send_scp", (g_x, g_y, g_p, args[0], args[1]), (("expected_args", g_expected),)))


@contract("rig/machine_control/bmp_controller.py::BMPController.send_scp")
class BMPPublicSendScp:
    """the BMP form: the command goes to exactly the (cabinet, frame, board) resolved for the call; positional and other keyword
    arguments are handed on unchanged"""
    properties = ("C18",)
    params = dict(self=TRec("BMPController"), args=TTuple(TInt(), TInt()), g_c=TInt(0, 255), g_f=TInt(0, 255), g_b=TInt(0, 23),
                  g_expected=TInt(0, 3), g_reply=TInt())
    externals = {"BMPController._send_scp": _sendscp_rec}
    options = {"decorators": {"use_contextual_arguments": "identity"},
               "kwargs": {"cabinet": "g_c", "frame": "g_f", "board": "g_b", "expected_args": "g_expected"}}
    assumptions = ["use_contextual_arguments as the identity (the wrapper has put the resolved values among the keyword arguments); "
                   "_send_scp (contract BMPSendScp) is recorded"]

    def native(x):
        raise __import__("pyvc.replay", fromlist=["OutsideHarness"]).OutsideHarness()

    def ensures_resolved_board_leads_and_the_rest_is_handed_on(args, g_c, g_f, g_b, g_expected, g_reply, result, _trace):
        return (result == g_reply and len(_trace) == 1
                and _trace[0] == ("_send_scp", (g_c, g_f, g_b, args[0], args[1]), (("expected_args", g_expected),)))


# ---- a new MachineController: knows nothing about any machine yet, and talks to exactly the host it was given ---------------------------
@contract("rig/machine_control/machine_controller.py::MachineController.__init__")
class MachineControllerInit:
    """a controller starts from its own arguments only: one connection, to exactly the host, port, number of tries and timeout given,
    filed as the connection of unknown position (what the context stack starts from: contract MachineControllerInitialContext); buffer size, window size, root chip and machine dimensions all UNKNOWN (to be asked of
    this controller's own machine), and the struct dictionary the one given"""
    properties = ("C18", "C17", "C06")
    params = dict(self=TRec("MachineController"), initial_host=TInt(), scp_port=TInt(1, 65535), boot_port=TInt(1, 65535), n_tries=TInt(1, 100),
                  timeout=TReal(), structs=TRec("Dict", ident=TInt(0, 9)), initial_context=ARGS)
    externals = {"ContextMixin.__init__": _mixin_init, "class:SCPConnection": _new_conn}
    assumptions = ["ContextMixin.__init__ (ownership contract of Context.__init__) and the SCPConnection constructor are recorded; the struct "
                   "dictionary is given (the default, parsed from the bundled file, is property C20's)"]

    def native(x):
        raise __import__("pyvc.replay", fromlist=["OutsideHarness"]).OutsideHarness()

    def ensures_own_arguments_only_everything_else_unknown(self_post, initial_host, scp_port, boot_port, n_tries, timeout, structs, _trace):
        return (len(_trace) == 2 and _trace[0] == ("context_init",)
                and _trace[1] == ("connection_made", initial_host, scp_port, n_tries, timeout)
                and self_post.connections[None].ident == 7 and len(self_post.connections) == 1
                and self_post.initial_host == initial_host and self_post.scp_port == scp_port and self_post.boot_port == boot_port
                and self_post.n_tries == n_tries and self_post.timeout == timeout
                and self_post._scp_data_length is None and self_post._window_size is None and self_post._root_chip is None
                and self_post._width is None and self_post._height is None
                and self_post.structs.ident == structs.ident)


# ---- FPGA registers through a board's management controller -----------------------------------------------------------------------------
def _bmp_send_all(E, obj, args, kwargs, st, node):
    s = st.copy()
    s.trace = ListV(s.trace.items + (("bmp_command",) + tuple(args) + (tuple(sorted(kwargs.items())),),))
    return [(s, ObjV("SCPPacket", {"data": st.env["g_data"]}), None)]


_B4 = TSeq(TInt(0, 255))


@contract("rig/machine_control/bmp_controller.py::BMPController.read_fpga_reg")
class ReadFpgaReg:
    """one 4-byte link read, sent to exactly the (cabinet, frame, board) resolved for the call, for the FPGA named, at the address
    rounded DOWN to a word; the value is the little-endian reading of the reply's four bytes"""
    properties = ("C18",)
    params = dict(self=TRec("BMPController"), fpga_num=TInt(0, 2), addr=TInt(0, 2 ** 32 - 1), cabinet=TInt(0, 255), frame=TInt(0, 255), board=TInt(0, 23),
                  g_data=_B4)
    externals = {"BMPController._send_scp": _bmp_send_all}
    options = {"decorators": {"use_contextual_arguments": "identity"}, "int_class": "rig/machine_control/consts.py::SCPCommands"}
    assumptions = ["BMPController._send_scp (contract BMPSendScp) is recorded; its reply carries the ghost bytes g_data"]

    def requires(g_data):
        return seq_len(g_data) == 4

    def native(x):
        raise __import__("pyvc.replay", fromlist=["OutsideHarness"]).OutsideHarness()

    def ensures_word_read_from_the_fpga_of_the_board_named(fpga_num, addr, cabinet, frame, board, g_data, result, _trace):
        return (len(_trace) == 1 and _trace[0][:5] == ("bmp_command", cabinet, frame, board, 17)
                and _trace[0][5] == (("arg1", addr - addr % 4), ("arg2", 4), ("arg3", fpga_num), ("expected_args", 0))
                and result == select(g_data, 0) + 256 * select(g_data, 1) + 65536 * select(g_data, 2) + 16777216 * select(g_data, 3))


@contract("rig/machine_control/bmp_controller.py::BMPController.write_fpga_reg")
class WriteFpgaReg:
    """one 4-byte link write to exactly the board resolved for the call, for the FPGA named, at the address rounded down to a word,
    carrying exactly the little-endian bytes of the value"""
    properties = ("C18",)
    params = dict(self=TRec("BMPController"), fpga_num=TInt(0, 2), addr=TInt(0, 2 ** 32 - 1), value=TInt(0, 2 ** 32 - 1), cabinet=TInt(0, 255),
                  frame=TInt(0, 255), board=TInt(0, 23), g_data=_B4)
    externals = {"BMPController._send_scp": _bmp_send_all}
    options = {"decorators": {"use_contextual_arguments": "identity"}, "int_class": "rig/machine_control/consts.py::SCPCommands"}
    assumptions = ["BMPController._send_scp (contract BMPSendScp) is recorded"]

    def native(x):
        raise __import__("pyvc.replay", fromlist=["OutsideHarness"]).OutsideHarness()

    def ensures_word_written_to_the_fpga_of_the_board_named(fpga_num, addr, value, cabinet, frame, board, _trace):
        kw = _trace[0][5]
        return (len(_trace) == 1 and _trace[0][:5] == ("bmp_command", cabinet, frame, board, 18)
                and kw[0] == ("arg1", addr - addr % 4) and kw[1] == ("arg2", 4) and kw[2] == ("arg3", fpga_num)
                and kw[3][0] == "data" and seq_len(kw[3][1]) == 4
                and select(kw[3][1], 0) + 256 * select(kw[3][1], 1) + 65536 * select(kw[3][1], 2) + 16777216 * select(kw[3][1], 3) == value
                and kw[4] == ("expected_args", 0))


# ---- the BMP's version: one request to the board named, the reply's fields as they are ----------------------------------------------------
def _bmp_sver_send(E, obj, args, kwargs, st, node):
    s = st.copy()
    s.trace = ListV(s.trace.items + (("bmp_command",) + tuple(args) + (tuple(sorted(kwargs.items())),),))
    return [(s, ObjV("SCPPacket", {"arg1": st.env["g_arg1"], "arg2": st.env["g_arg2"], "arg3": st.env["g_arg3"]}), None)]


def _bmp_unpack(E, args, kwargs, st, node):
    return [(st, (z3.IntVal(101), z3.IntVal(102), z3.IntVal(103)))]


def _bmp_info(E, args, kwargs, st, node):
    names = ("code_block", "frame_id", "can_id", "board_id", "version", "buffer_size", "build_date", "version_string", "version_labels")
    return [(st, ObjV("BMPInfo", dict(zip(names, args))))]


@contract("rig/machine_control/bmp_controller.py::BMPController.get_software_version")
class BMPSoftwareVersion:
    """one version request to exactly the (cabinet, frame, board) resolved for the call; the reply's first argument is code block,
    frame id, CAN id and board id byte by byte, the low half of the second the buffer size, the third the build date"""
    properties = ("C18",)
    params = dict(self=TRec("BMPController"), cabinet=TInt(0, 255), frame=TInt(0, 255), board=TInt(0, 23),
                  g_arg1=TInt(0, 0xffffffff), g_arg2=TInt(0, 0xffffffff), g_arg3=TInt(0, 0xffffffff))
    externals = {"BMPController._send_scp": _bmp_sver_send, "def:unpack_sver_response_version": _bmp_unpack, "class:BMPInfo": _bmp_info}
    options = {"decorators": {"use_contextual_arguments": "identity"}, "int_class": "rig/machine_control/consts.py::SCPCommands"}
    assumptions = ["use_contextual_arguments as the identity; _send_scp (BMPSendScp) is recorded and returns an arbitrary reply; the version text "
                   "decoder and the BMPInfo constructor are opaque: which value goes into which field is what is checked"]

    def native(x):
        raise __import__("pyvc.replay", fromlist=["OutsideHarness"]).OutsideHarness()

    def ensures_one_request_to_the_board_named_and_the_reply_decoded(cabinet, frame, board, g_arg1, g_arg2, g_arg3, result, _trace):
        return (len(_trace) == 1 and _trace[0] == ("bmp_command", cabinet, frame, board, 0, ())
                and result.code_block == g_arg1 // 2 ** 24 and result.frame_id == (g_arg1 // 65536) % 256
                and result.can_id == (g_arg1 // 256) % 256 and result.board_id == g_arg1 % 256
                and result.buffer_size == g_arg2 % 65536 and result.build_date == g_arg3
                and result.version_string == 101 and result.version == 102 and result.version_labels == 103)


# ---- IP tags: set on / read from / cleared on the chip named -------------------------------------------------------------------------------
def _mc_scp_all(E, obj, args, kwargs, st, node):
    s = st.copy()
    s.trace = ListV(s.trace.items + (("scp",) + tuple(args) + (tuple(sorted(kwargs.items())),),))
    return [(s, ObjV("SCPPacket", {"data": ObjV("Bytes", {"ident": 77})}), None)]


def _iptag_parse(E, args, kwargs, st, node):
    return [(st, ObjV("IPTag", {"parsed_from": args[0].fields["ident"]}))]


@contract("rig/machine_control/machine_controller.py::MachineController.iptag_clear")
class IptagClear:
    """one IPTag command to the monitor of exactly the chip named: operation clear, the tag named"""
    properties = ("C18",)
    params = dict(self=TRec("MachineController"), iptag=TInt(0, 7), x=TInt(0, 255), y=TInt(0, 255))
    externals = {"MachineController._send_scp": _mc_scp_all}
    options = {"decorators": {"use_contextual_arguments": "identity"}, "int_class": "rig/machine_control/consts.py::SCPCommands"}
    assumptions = ["use_contextual_arguments as the identity; _send_scp (MCSendScp) is recorded"]

    def native(x):
        raise __import__("pyvc.replay", fromlist=["OutsideHarness"]).OutsideHarness()

    def ensures_clears_this_tag_on_this_chip(iptag, x, y, _trace):
        return len(_trace) == 1 and _trace[0] == ("scp", x, y, 0, 26, 3 * 65536 + iptag, ())


@contract("rig/machine_control/machine_controller.py::MachineController.iptag_get")
class IptagGet:
    """one IPTag command to the monitor of exactly the chip named: operation get, the tag named, one tag asked for; what is returned
    is decoded from that reply's data"""
    properties = ("C18",)
    params = dict(self=TRec("MachineController"), iptag=TInt(0, 7), x=TInt(0, 255), y=TInt(0, 255))
    externals = {"MachineController._send_scp": _mc_scp_all, "def:from_bytestring": _iptag_parse}
    options = {"decorators": {"use_contextual_arguments": "identity"}, "int_class": "rig/machine_control/consts.py::SCPCommands"}
    assumptions = ["use_contextual_arguments as the identity; _send_scp (MCSendScp) is recorded; IPTag.from_bytestring is opaque"]

    def native(x):
        raise __import__("pyvc.replay", fromlist=["OutsideHarness"]).OutsideHarness()

    def ensures_reads_this_tag_of_this_chip(iptag, x, y, result, _trace):
        return (len(_trace) == 1 and _trace[0] == ("scp", x, y, 0, 26, 2 * 65536 + iptag, 1, (("expected_args", 0),))
                and result.parsed_from == 77)


@contract("rig/machine_control/machine_controller.py::MachineController.set_led", variant="one_led")
class MCSetLedOne:
    """one LED of one chip: one LED command to the monitor of exactly the chip named, with the action (3 on, 2 off, 1 toggle when
    none is given) in that LED's two bits and nothing in the others"""
    properties = ("C18",)
    params = dict(self=TRec("MachineController"), led=TInt(0, 3), action=TOpt(TBool()), x=TInt(0, 255), y=TInt(0, 255))
    externals = {"MachineController._send_scp": _mc_scp_all}
    options = {"decorators": {"use_contextual_arguments": "identity"}, "no_merge": True, "int_class": "rig/machine_control/consts.py::LEDAction"}
    assumptions = ["use_contextual_arguments as the identity; _send_scp (MCSendScp) is recorded"]

    def native(x):
        raise __import__("pyvc.replay", fromlist=["OutsideHarness"]).OutsideHarness()

    def ensures_this_led_of_this_chip(led, action, x, y, _trace):
        code = 1 if action is None else (3 if action else 2)
        return (len(_trace) == 1 and _trace[0][:4] == ("scp", x, y, 0)
                and _trace[0][5] == (("arg1", code * 2 ** (2 * led)), ("expected_args", 0)))


@contract("rig/machine_control/machine_controller.py::MachineController.set_led", variant="three_leds")
class MCSetLedThree:
    """several LEDs of one chip: ONE command to the monitor of the chip named, each LED's action in its own two bits"""
    properties = ("C18",)
    params = dict(self=TRec("MachineController"), led=TList(TInt(0, 3), TInt(0, 3), TInt(0, 3)), action=TOpt(TBool()), x=TInt(0, 255), y=TInt(0, 255))
    externals = {"MachineController._send_scp": _mc_scp_all}
    options = {"decorators": {"use_contextual_arguments": "identity"}, "no_merge": True, "int_class": "rig/machine_control/consts.py::LEDAction"}
    assumptions = MCSetLedOne.assumptions

    def native(x):
        raise __import__("pyvc.replay", fromlist=["OutsideHarness"]).OutsideHarness()

    def requires(led):
        return led[0] != led[1] and led[1] != led[2] and led[0] != led[2]

    def ensures_every_led_named_on_this_chip_in_one_command(led, action, x, y, _trace):
        code = 1 if action is None else (3 if action else 2)
        return (len(_trace) == 1 and _trace[0][:4] == ("scp", x, y, 0)
                and _trace[0][5] == (("arg1", code * (2 ** (2 * led[0]) + 2 ** (2 * led[1]) + 2 ** (2 * led[2]))), ("expected_args", 0)))
