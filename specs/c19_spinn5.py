"""C19 -- SpiNN-5 board geometry (rig/geometry.py).  The oracle is an independent description
of the tiling, written from the board documentation and NOT from the lookup table in the code:
a board is the 48-chip hexagon {0<=x,y<=7, x-y<=4, y-x<=3} and boards' Ethernet chips sit at
(0,0), (4,8), (8,4) modulo 12 (relative to the root chip's board)."""
from pyvc.spec import contract, lemma
from pyvc.values import TInt, TTuple, TOpt, TSeq
from pyvc.speclib import implies, ite, is_none, unopt, iff
from rig.geometry import SPINN5_FPGA_LINKS

T2 = TTuple(TInt(), TInt())
LINK = TInt(0, 5)


def in_board(cx, cy):
    return 0 <= cx <= 7 and 0 <= cy <= 7 and cx - cy <= 4 and cy - cx <= 3


def is_eth(px, py):
    """(px, py) relative to the root chip is an Ethernet-connected chip of some board"""
    return ((px % 12 == 0 and py % 12 == 0) or (px % 12 == 4 and py % 12 == 8)
            or (px % 12 == 8 and py % 12 == 4))


def link_vec(l):
    return ite(l == 0, (1, 0), ite(l == 1, (1, 1), ite(l == 2, (0, 1),
               ite(l == 3, (-1, 0), ite(l == 4, (-1, -1), (0, -1))))))


@contract("rig/geometry.py::spinn5_chip_coord")
class ChipCoord:
    properties = ("C19",)
    params = dict(x=TInt(), y=TInt(), root_x=TInt(), root_y=TInt())
    result = T2

    def ensures_is_a_position_on_a_board(x, y, root_x, root_y, result):
        return in_board(result[0], result[1])

    def ensures_offset_from_an_ethernet_chip(x, y, root_x, root_y, result):
        return is_eth(x - root_x - result[0], y - root_y - result[1])


@lemma("board_of_a_chip_is_unique")
class BoardUnique:
    """The hexagons tile the plane: a chip has exactly one (board position, Ethernet chip) pair.
    Hence the two postconditions of spinn5_chip_coord determine its result."""
    properties = ("C19",)
    params = dict(px=TInt(), py=TInt(), ax=TInt(), ay=TInt(), bx=TInt(), by=TInt())

    def claim_unique(px, py, ax, ay, bx, by):
        return implies(in_board(ax, ay) and in_board(bx, by) and is_eth(px - ax, py - ay) and is_eth(px - bx, py - by),
                       ax == bx and ay == by)


@contract("rig/geometry.py::spinn5_local_eth_coord")
class LocalEthCoord:
    properties = ("C19",)
    params = dict(x=TInt(), y=TInt(), w=TInt(1, None), h=TInt(1, None), root_x=TInt(), root_y=TInt())
    result = T2

    def ensures_is_the_boards_ethernet_chip(x, y, w, h, root_x, root_y, result):
        # the chip's board position c (from the tile model), its Ethernet chip (x, y) - c,
        # taken modulo the machine size
        return (result[0] == (x - cx_of(x, y, root_x, root_y)) % w
                and result[1] == (y - cy_of(x, y, root_x, root_y)) % h)


@lemma("tile_model_board_position")
class TileModelPosition:
    """cx_of/cy_of (twelve candidate Ethernet chips around a chip) really give the board position:
    it lies on the board and (x, y) minus it is an Ethernet chip."""
    properties = ("C19",)
    params = dict(x=TInt(), y=TInt(), root_x=TInt(), root_y=TInt())

    def claim(x, y, root_x, root_y):
        cx = cx_of(x, y, root_x, root_y)
        cy = cy_of(x, y, root_x, root_y)
        return in_board(cx, cy) and is_eth(x - root_x - cx, y - root_y - cy)


def _cand(px, py, ex, ey):
    return in_board(px - ex, py - ey)


def cx_of(x, y, root_x, root_y):
    """board x-coordinate of a chip, from the tile model alone (12 candidate Ethernet chips around)"""
    px = (x - root_x) % 12
    py = (y - root_y) % 12
    return (ite(_cand(px, py, 0, 0), px, ite(_cand(px, py, 4, 8), px - 4, ite(_cand(px, py, 8, 4), px - 8,
            ite(_cand(px, py, 4, -4), px - 4, ite(_cand(px, py, -4, 4), px + 4, ite(_cand(px, py, 8, -8), px - 8,
            ite(_cand(px, py, -8, 8), px + 8, ite(_cand(px, py, -4, -8), px + 4, ite(_cand(px, py, -8, -4), px + 8,
            ite(_cand(px, py, 0, -12), px, ite(_cand(px, py, -12, 0), px + 12, px - 12))))))))))))


def cy_of(x, y, root_x, root_y):
    px = (x - root_x) % 12
    py = (y - root_y) % 12
    return (ite(_cand(px, py, 0, 0), py, ite(_cand(px, py, 4, 8), py - 8, ite(_cand(px, py, 8, 4), py - 4,
            ite(_cand(px, py, 4, -4), py + 4, ite(_cand(px, py, -4, 4), py - 4, ite(_cand(px, py, 8, -8), py + 8,
            ite(_cand(px, py, -8, 8), py - 8, ite(_cand(px, py, -4, -8), py + 8, ite(_cand(px, py, -8, -4), py + 4,
            ite(_cand(px, py, 0, -12), py + 12, ite(_cand(px, py, -12, 0), py, py - 12))))))))))))


@contract("rig/geometry.py::spinn5_fpga_link")
class FpgaLink:
    properties = ("C19",)
    params = dict(x=TInt(), y=TInt(), link=LINK, root_x=TInt(), root_y=TInt())
    result = TOpt(T2)
    options = {"int_class": "rig/links.py::Links"}

    def ensures_fpga_iff_link_leaves_the_board(x, y, link, root_x, root_y, result):
        cx = cx_of(x, y, root_x, root_y)
        cy = cy_of(x, y, root_x, root_y)
        return iff(result is not None, not in_board(cx + link_vec(link)[0], cy + link_vec(link)[1]))

    def ensures_is_the_table_entry_of_the_board_position(x, y, link, root_x, root_y, result):
        return result == SPINN5_FPGA_LINKS.get((cx_of(x, y, root_x, root_y), cy_of(x, y, root_x, root_y), link))


@lemma("fpga_link_numbers_distinct")
class FpgaDistinct:
    """Two different board-leaving links never share an FPGA link number (the real table, as data)."""
    properties = ("C19",)
    params = dict(ax=TInt(0, 7), ay=TInt(0, 7), al=LINK, bx=TInt(0, 7), by=TInt(0, 7), bl=LINK)

    def claim_distinct(ax, ay, al, bx, by, bl):
        a = SPINN5_FPGA_LINKS.get((ax, ay, al))
        b = SPINN5_FPGA_LINKS.get((bx, by, bl))
        return implies(a is not None and b is not None and a == b, ax == bx and ay == by and al == bl)

    def claim_numbers_in_range(ax, ay, al, bx, by, bl):
        a = SPINN5_FPGA_LINKS.get((ax, ay, al))
        return implies(a is not None, 0 <= unopt(a)[0] <= 2 and 0 <= unopt(a)[1] <= 15)


@contract("rig/geometry.py::spinn5_eth_coords")
class EthCoords:
    properties = ("C19",)
    params = dict(width=TInt(1, None), height=TInt(1, None), root_x=TInt(), root_y=TInt())
    yields = T2
    result = TSeq(T2)
    loop_headers = {0: "for x in range(0, w, 12):", 1: "for y in range(0, h, 12):"}

    def sample_domain(width, height):
        return width <= 40 and height <= 40

    def inv_0_true(width):
        return width >= 1

    def inv_1_true(width):
        return width >= 1

    # soundness of the generator: every yielded coordinate is inside the machine and is an
    # Ethernet chip of the tiling anchored at the root chip (completeness: bounded layer)
    ghost_asserts = {"yield (nx, ny)": ["ghost_yielded_is_an_ethernet_chip_inside"]}

    def ghost_yielded_is_an_ethernet_chip_inside(nx, ny, width, height, old_root_x, old_root_y):
        return (0 <= nx < width and 0 <= ny < height and is_eth(nx - old_root_x, ny - old_root_y))
