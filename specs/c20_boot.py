"""C20 -- boot datagrams (rig/machine_control/boot.py::boot_packet).  boot() itself (files,
clock, socket, struct-file parsing) is decided by bounded/c20_boot.py over a recording socket."""
from pyvc.spec import contract, lemma
from pyvc.values import TInt, TSeq, TRec, ListV, TBool
from pyvc.speclib import implies, forall_range, select, seq_len

BYTES = TSeq(TInt(0, 255), "bytes")
U32 = TInt(0, 2 ** 32 - 1)


def _send(E, obj, args, kwargs, st, node):
    """sock.send(datagram): transmitted and recorded - or, when the ghost input g_refused is set (where a contract declares
    it), refused by the operating system: OSError, nothing transmitted"""
    from pyvc.values import NONE, ExcV
    from pyvc.engine import Raised
    s = st.copy()
    s.trace = ListV(s.trace.items + (("send", args[0]),))
    if "g_refused" not in st.env:
        return [(s, NONE, None)]
    import z3
    return [(s.assume(z3.Not(st.env["g_refused"])), NONE, None), (st.assume(st.env["g_refused"]), Raised(ExcV("OSError")), None)]


class _Sock(object):
    def __init__(self, refuse=False):
        self.sent = []
        self.refuse = refuse

    def send(self, data):
        if self.refuse:
            raise ConnectionRefusedError(111, "Connection refused")
        self.sent.append(("send", bytes(data)))


def be32(b, i):
    return 16777216 * select(b, i) + 65536 * select(b, i + 1) + 256 * select(b, i + 2) + select(b, i + 3)


@contract("rig/machine_control/boot.py::boot_packet")
class BootPacket:
    properties = ("C20",)
    params = dict(sock=TRec("OpaqueSock"), cmd=U32, arg1=U32, arg2=U32, arg3=U32, data=BYTES, g_refused=TBool())
    externals = {"OpaqueSock.send": _send}
    options = {"var_shapes": {"fdata": BYTES}}
    loop_headers = {0: "while len(data) > 0:"}
    raises = {"OSError": None}

    def raises_OSError(g_refused, _trace):
        # a datagram the socket refuses is not passed over in silence: the error reaches the caller, nothing was transmitted
        return g_refused and len(_trace) == 0

    def native(cmd, arg1, arg2, arg3, data, g_refused):
        from rig.machine_control.boot import boot_packet
        s = _Sock(refuse=g_refused)
        try:
            boot_packet(s, cmd, arg1, arg2, arg3, data)
            raised = None
        except OSError:
            raised = "OSError"
        return {"__native__": True, "result": None, "raised": raised, "_trace": s.sent}

    def requires(cmd, arg1, arg2, arg3, data):
        return seq_len(data) % 4 == 0          # the function's own assert

    # loop 0: words are moved from `data` to `fdata` with their bytes reversed
    def inv_0_lengths(data, fdata, old_data):
        return seq_len(fdata) + seq_len(data) == seq_len(old_data) and seq_len(data) % 4 == 0 and seq_len(data) >= 0

    def inv_0_rest_unchanged(data, fdata, old_data):
        return forall_range(0, seq_len(data), lambda i: select(data, i) == select(old_data, seq_len(fdata) + i))

    def inv_0_done_words_swapped(fdata, old_data):
        return forall_range(0, seq_len(fdata), lambda j: select(fdata, j) == select(old_data, j - j % 4 + 3 - j % 4))

    def variant_0(data):
        return seq_len(data)

    def ensures_one_datagram(g_refused, _trace):
        return not g_refused and len(_trace) == 1 and _trace[0][0] == "send"

    def ensures_header_is_version_command_and_arguments(cmd, arg1, arg2, arg3, _trace):
        d = _trace[0][1]
        # "!H4I": 16-bit protocol version 1, then command and three arguments as big-endian words
        return (select(d, 0) == 0 and select(d, 1) == 1 and be32(d, 2) == cmd
                and be32(d, 6) == arg1 and be32(d, 10) == arg2 and be32(d, 14) == arg3)

    def ensures_payload_is_the_data_with_each_word_byte_swapped(data, _trace):
        d = _trace[0][1]
        return (seq_len(d) == 18 + seq_len(data)
                and forall_range(0, seq_len(data), lambda j: select(d, 18 + j) == select(data, j - j % 4 + 3 - j % 4)))


# ---- boot(): announces as many blocks as it sends; each block is the next kilobyte -----------------------
from pyvc.values import TBool, TOpt, ObjV as _ObjV, NONE as _NONE, StrV as _StrV   # noqa: E402
from rig.machine_control import boot as _boot_module   # noqa: E402,F401


def _rec(name, ret=None):
    def h(E, *a):
        # works for both external functions (E, args, kwargs, st, node) and methods (E, obj, args, kwargs, st, node)
        if len(a) == 5:
            obj, args, kwargs, st, node = a
        else:
            args, kwargs, st, node = a
            obj = None
        s = st.copy()
        s.trace = ListV(s.trace.items + ((name,) + tuple(args) + tuple(kwargs[k] for k in sorted(kwargs)),))
        return [(s, _NONE, None)] if obj is not None else [(s, _NONE)]
    return h


def _resource_filename(E, args, kwargs, st, node):
    return [(st, _StrV())]


def _open2(E, args, kwargs, st, node):
    # the two files are told apart by the order in which they are opened
    n = st.ghost.get("_opened", 0)
    s = st.copy()
    s.ghost = dict(s.ghost)
    s.ghost["_opened"] = n + 1
    return [(s, _ObjV("File", {"n": n}))]


def _file_read2(E, obj, args, kwargs, st, node):
    return [(st, st.env["g_image"] if obj.fields["n"] == 0 else st.env["g_struct_text"], None)]


def _same(E, obj, args, kwargs, st, node):
    return [(st, obj, None)]


def _none(E, obj, args, kwargs, st, node):
    return [(st, _NONE, None)]


def _read_struct_file(E, args, kwargs, st, node):
    return [(st, _ObjV("Structs", {}))]


def _structs_getitem(E, obj, args, kwargs, st, node):
    return [(st, _ObjV("SvStruct", {}), None)]


def _sv_pack(E, obj, args, kwargs, st, node):
    return [(st, st.env["g_packed"], None)]


def _socket(E, args, kwargs, st, node):
    return [(st, _ObjV("Sock", {}))]


def _time(E, args, kwargs, st, node):
    return [(st, st.env["g_now"])]


def _sleep(E, args, kwargs, st, node):
    return [(st, _NONE)]


@contract("rig/machine_control/boot.py::boot")
class Boot:
    properties = ("C20",)
    params = dict(hostname=TInt(), boot_port=TInt(), scamp_binary=TOpt(TInt()), sark_struct=TOpt(TInt()),
                  boot_delay=TInt(), post_boot_delay=TInt(),
                  g_image=BYTES, g_struct_text=BYTES, g_packed=BYTES, g_now=TInt(0, None))
    externals = {"pkg_resources.resource_filename": _resource_filename, "open": _open2, "File.__enter__": _same,
                 "File.__exit__": _none, "File.read": _file_read2, "def:read_struct_file": _read_struct_file,
                 "Structs.__getitem__": _structs_getitem, "SvStruct.update_default_values": _rec("sv.update_default_values"),
                 "SvStruct.pack": _sv_pack, "socket.socket": _socket, "Sock.connect": _rec("connect"), "Sock.close": _rec("close"),
                 "def:boot_packet": _rec("boot_packet"), "time.time": _time, "time.sleep": _sleep}
    options = {"trace_in_loops": False}
    raises = {"AssertionError": None}
    loop_headers = {0: "while len(boot_data) > 0:"}
    assumptions = ["files, clock, socket and the struct-file parser are external: the image, the packed system variables (>= 128 bytes) and the time are ghost inputs; boot_packet is recorded here and verified by its own contract"]

    def native(hostname, boot_port, g_image, g_packed, g_now):
        raise __import__("pyvc.replay", fromlist=["OutsideHarness"]).OutsideHarness()

    def requires(g_image, g_packed):
        # the function's own asserts: the image fits the DTCM and the packed variables fill the area
        return seq_len(g_packed) >= 128 and 512 <= seq_len(g_image) < 32768

    def raises_AssertionError(g_image):
        return False

    def inv_0_block_counter(boot_data, buf, block):
        return (block >= 0 and seq_len(boot_data) == max(0, seq_len(buf) - 1024 * block)
                and 1024 * block < seq_len(buf) + 1024 and seq_len(buf) < 32768)

    def inv_0_remaining_image(boot_data, buf, block):
        return forall_range(0, seq_len(boot_data), lambda i: select(boot_data, i) == select(buf, 1024 * block + i))

    def variant_0(boot_data):
        return seq_len(boot_data)

    ghost_asserts = {"boot_packet(sock, BootCommand.send_block, a1, data=data)": ["ghost_block_is_the_next_kilobyte"],
                     "boot_packet(sock, BootCommand.start, arg3=n_blocks - 1)": ["ghost_announces_the_number_of_blocks"]}

    def ghost_announces_the_number_of_blocks(buf, n_blocks, g_image):
        return seq_len(buf) == seq_len(g_image) and n_blocks == (seq_len(buf) + 1023) // 1024 and 1 <= n_blocks <= 32

    def ghost_block_is_the_next_kilobyte(buf, block, a1, data, n_blocks):
        n = seq_len(data)
        return (0 <= block < n_blocks and a1 == 255 * 256 + block and 1 <= n <= 1024 and n == min(1024, seq_len(buf) - 1024 * block)
                and forall_range(0, n, lambda i: select(data, i) == select(buf, 1024 * block + i)))

    def ensures_sends_as_many_blocks_as_announced(local_block, local_n_blocks):
        return local_block == local_n_blocks

    def ensures_image_with_the_configuration_area_replaced(g_image, g_packed, local_buf):
        return (seq_len(local_buf) == seq_len(g_image)
                and forall_range(0, seq_len(g_image), lambda i: select(local_buf, i) == (
                    select(g_packed, i - 384) if 384 <= i < 512 else select(g_image, i))))

    def ensures_connect_start_then_end_close(hostname, boot_port, local_n_blocks, _trace):
        return (len(_trace) >= 6 and _trace[2][0] == "connect" and _trace[2][1] == (hostname, boot_port)
                and _trace[3][0] == "boot_packet" and _trace[3][2] == 1 and _trace[3][3] == local_n_blocks - 1
                and _trace[4][0] == "boot_packet" and _trace[4][2] == 5 and _trace[4][3] == 1
                and _trace[5][0] == "close")


# ---- the struct the configuration area is packed from (rig/machine_control/struct_file.py) -----------------
from rig.machine_control.struct_file import Struct, StructField


def pack_four(size, o1, v1, o2, v2, o3, v3, o4, v4):
    """a struct with one field of each scalar pack character used by the struct files"""
    s = Struct(b"sv", size, 0)
    s[b"a"] = StructField(b"I", o1, b"%08x", v1, 1)
    s[b"b"] = StructField(b"H", o2, b"%04x", v2, 1)
    s[b"c"] = StructField(b"B", o3, b"%02x", v3, 1)
    s[b"d"] = StructField(b"b", o4, b"%d", v4, 1)
    return s.pack()


def update_and_pack(size, o1, v1, o2, v2, n1, n2):
    """defaults overridden through update_default_values, then packed"""
    s = Struct(b"sv", size, 0)
    s[b"a"] = StructField(b"I", o1, b"%08x", v1, 1)
    s[b"b"] = StructField(b"H", o2, b"%04x", v2, 1)
    s.update_default_values(a=n1)
    first = s.pack()
    s.update_default_values(b=n2, a=v1)
    return (first, s.pack(), s[b"a"].default, s[b"b"].default)


def le(b, off, n):
    return sum(select(b, off + i) * 256 ** i for i in range(n))


@contract("specs/c20_boot.py::pack_four")
class PackFour:
    properties = ("C20",)
    params = dict(size=TInt(8, 4096), o1=TInt(0, None), v1=U32, o2=TInt(0, None), v2=TInt(0, 65535),
                  o3=TInt(0, None), v3=TInt(0, 255), o4=TInt(0, None), v4=TInt(-128, 127))
    result = BYTES
    assumptions = ["Struct.pack is verified for structs holding one field of each scalar pack character (I, H, B, b) at arbitrary disjoint offsets with arbitrary in-range values; the generalisation to any number of fields is the same loop body and is not proved separately"]

    def native(size, o1, v1, o2, v2, o3, v3, o4, v4):
        return pack_four(size, o1, v1, o2, v2, o3, v3, o4, v4)

    def requires(size, o1, o2, o3, o4):
        # fields inside the struct and not overlapping (as in a struct file): a < b < c < d
        return o1 + 4 <= o2 and o2 + 2 <= o3 and o3 + 1 <= o4 and o4 + 1 <= size

    def ensures_size(size, result):
        return seq_len(result) == size

    def ensures_every_field_holds_its_value_little_endian(o1, v1, o2, v2, o3, v3, o4, v4, result):
        return (le(result, o1, 4) == v1 and le(result, o2, 2) == v2 and select(result, o3) == v3
                and select(result, o4) == v4 % 256)

    def ensures_everything_else_is_zero(size, o1, o2, o3, o4, result):
        return forall_range(0, size, lambda i: implies(not (o1 <= i < o1 + 4 or o2 <= i < o2 + 2 or i == o3 or i == o4),
                                                       select(result, i) == 0))


@contract("specs/c20_boot.py::update_and_pack")
class UpdateAndPack:
    properties = ("C20",)
    params = dict(size=TInt(8, 4096), o1=TInt(0, None), v1=U32, o2=TInt(0, None), v2=TInt(0, 65535), n1=U32, n2=TInt(0, 65535))

    def native(size, o1, v1, o2, v2, n1, n2):
        return update_and_pack(size, o1, v1, o2, v2, n1, n2)

    def requires(size, o1, o2):
        return o1 + 4 <= o2 and o2 + 2 <= size

    def ensures_an_override_replaces_the_default_whatever_its_value(o1, v2, o2, n1, result):
        return le(result[0], o1, 4) == n1 and le(result[0], o2, 2) == v2

    def ensures_later_overrides_win_and_are_recorded(o1, v1, o2, n2, result):
        return le(result[1], o1, 4) == v1 and le(result[1], o2, 2) == n2 and result[2] == v1 and result[3] == n2


# ---- option isolation as a frame property: boot() leaves its arguments and its own default arguments unchanged, and does not
# ---- modify anything it takes out of module-level state (e.g. parsed struct definitions kept between calls) ------------------
from pyvc.spec import frame   # noqa: E402


@frame("rig/machine_control/boot.py::boot")
class BootFrame:
    properties = ("C20",)
    globals_unchanged = True
    assumptions = ["files, sockets and the clock are library objects: their methods are taken to affect nothing but the outside world"]


@frame("rig/machine_control/struct_file.py::read_struct_file")
class ReadStructFileFrame:
    properties = ("C20",)
    globals_unchanged = True


# ---- MachineController.boot: the controller-level entry point ------------------------------------------------------------------------
import z3 as _z3   # noqa: E402
from pyvc.values import ExcV as _ExcV, TConst as _TConst20   # noqa: E402


def _mcb_new_controller(E, args, kwargs, st, node):
    s = st.copy()
    s.trace = ListV(s.trace.items + (("controller_made",) + tuple(args) + tuple(sorted(kwargs.items())),))
    return [(s, _ObjV("QuickFailController", {"ident": 11}))]


def _mcb_quick_version(E, obj, args, kwargs, st, node):
    from pyvc.engine import Raised
    s = st.copy()
    s.trace = ListV(s.trace.items + (("asked_quickly",) + tuple(args),))
    ok = s.assume(_z3.Not(st.env["g_silent"]))
    bad = s.assume(st.env["g_silent"])
    return [(ok, _ObjV("CoreInfo", {"version_string": st.env["g_version_string"]}), None), (bad, Raised(_ExcV("SCPError", ())), None)]


def _mcb_str_contains(E, obj, args, kwargs, st, node):
    return [(st, st.env["g_is_spinnaker"], None)]


def _mcb_boot(E, args, kwargs, st, node):
    s = st.copy()
    s.trace = ListV(s.trace.items + (("boot",) + tuple(args) + tuple(sorted(kwargs.items())),))
    return [(s, _ObjV("Dict", {"ident": 22, "n": _z3.IntVal(3)}))]


def _mcb_dict_len(E, obj, args, kwargs, st, node):
    return [(st, obj.fields["n"], None)]


def _mcb_dict_mutated(E, obj, args, kwargs, st, node):
    s = st.copy()
    s.trace = ListV(s.trace.items + (("dictionary_changed_in_place", obj.fields["ident"]),))
    return [(s, _NONE, obj)]


@contract("rig/machine_control/machine_controller.py::MachineController.boot")
class ControllerBoot:
    """with only_if_needed the machine is first asked - through a NEW controller for the same host (how patient it is, is not the
    statement's business) - and
    left alone when something answers (an answer that is not SpiNNaker's is an error); otherwise (or when nothing answers) the
    machine is booted from the controller's own host and boot port with exactly the options given, and the controller's struct
    dictionary is REPLACED by the one that boot returns: the dictionary it held before - possibly the caller's, possibly shared with
    other controllers - is not written to"""
    properties = ("C20", "C17")
    params = dict(self=TRec("MachineController", initial_host=TInt(), boot_port=TInt(1, 65535), structs=TRec("Dict", ident=TInt(0, 9), n=TInt(1, None))),
                  only_if_needed=TBool(), check_booted=_TConst20(False), g_silent=TBool(), g_version_string=TRec("VersionString"), g_is_spinnaker=TBool(), g_led0=TInt())
    externals = {"class:MachineController": _mcb_new_controller, "QuickFailController.get_software_version": _mcb_quick_version,
                 "VersionString.__contains__": _mcb_str_contains, "def:boot": _mcb_boot, "Dict.__len__": _mcb_dict_len,
                 "Dict.update": _mcb_dict_mutated, "Dict.__setitem__": _mcb_dict_mutated, "Dict.clear": _mcb_dict_mutated}
    options = {"kwargs": {"led0": "g_led0"}}
    assumptions = ["boot.boot (contract Boot) and the quick-fail controller are recorded; the struct dictionaries are opaque objects whose "
                   "in-place changes (update, item assignment, clear) are recorded; check_booted=False (the wait loop polls the machine: C14)"]

    def native(x):
        raise __import__("pyvc.replay", fromlist=["OutsideHarness"]).OutsideHarness()

    def raises_SpiNNakerBootError(only_if_needed, g_silent, g_is_spinnaker, _trace):
        return only_if_needed and not g_silent and not g_is_spinnaker and all(t[0] != "boot" for t in _trace)

    def ensures_asked_first_if_wanted_then_booted_with_the_given_options_into_a_new_dictionary(self, self_post, only_if_needed, g_silent, g_is_spinnaker,
                                                                                                  g_led0, result, _trace):
        n_ask = 2 if only_if_needed else 0
        left_alone = only_if_needed and not g_silent
        return (implies(only_if_needed, len(_trace) >= 2 and _trace[0][0] == "controller_made" and _trace[0][1] == self.initial_host
                        and _trace[1][0] == "asked_quickly")
                and implies(left_alone, g_is_spinnaker and result == False and len(_trace) == 2 and self_post.structs.ident == self.structs.ident)
                and implies(not left_alone, result == True and len(_trace) == n_ask + 1
                            and _trace[n_ask] == ("boot", self.initial_host, ("boot_port", self.boot_port), ("led0", g_led0))
                            and self_post.structs.ident == 22))
