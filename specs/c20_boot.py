"""C20 -- boot datagrams (rig/machine_control/boot.py::boot_packet).  boot() itself (files,
clock, socket, struct-file parsing) is decided by bounded/c20_boot.py over a recording socket."""
from pyvc.spec import contract, lemma
from pyvc.values import TInt, TSeq, TRec, ListV
from pyvc.speclib import implies, forall_range, select, seq_len

BYTES = TSeq(TInt(0, 255), "bytes")
U32 = TInt(0, 2 ** 32 - 1)


def _send(E, obj, args, kwargs, st, node):
    s = st.copy()
    s.trace = ListV(s.trace.items + (("send", args[0]),))
    from pyvc.values import NONE
    return [(s, NONE, None)]


class _Sock(object):
    def __init__(self):
        self.sent = []

    def send(self, data):
        self.sent.append(("send", bytes(data)))


def be32(b, i):
    return 16777216 * select(b, i) + 65536 * select(b, i + 1) + 256 * select(b, i + 2) + select(b, i + 3)


@contract("rig/machine_control/boot.py::boot_packet")
class BootPacket:
    properties = ("C20",)
    params = dict(sock=TRec("OpaqueSock"), cmd=U32, arg1=U32, arg2=U32, arg3=U32, data=BYTES)
    externals = {"OpaqueSock.send": _send}
    options = {"var_shapes": {"fdata": BYTES}}
    loop_headers = {0: "while len(data) > 0:"}

    def native(cmd, arg1, arg2, arg3, data):
        from rig.machine_control.boot import boot_packet
        s = _Sock()
        boot_packet(s, cmd, arg1, arg2, arg3, data)
        return {"__native__": True, "result": None, "_trace": s.sent}

    def requires(cmd, arg1, arg2, arg3, data):
        return seq_len(data) % 4 == 0          # the function's own assert

    # loop 0: words are moved from `data` to `fdata` with their bytes reversed
    def inv_0_lengths(data, fdata, old_data):
        return seq_len(fdata) + seq_len(data) == seq_len(old_data) and seq_len(data) % 4 == 0 and seq_len(data) >= 0

    def inv_0_rest_unchanged(data, fdata, old_data):
        return forall_range(0, seq_len(data), lambda i: select(data, i) == select(old_data, seq_len(fdata) + i))

    def inv_0_done_words_swapped(fdata, old_data):
        return forall_range(0, seq_len(fdata), lambda j: select(fdata, j) == select(old_data, j - j % 4 + 3 - j % 4))

    def variant_0(data):
        return seq_len(data)

    def ensures_one_datagram(_trace):
        return len(_trace) == 1 and _trace[0][0] == "send"

    def ensures_header_is_version_command_and_arguments(cmd, arg1, arg2, arg3, _trace):
        d = _trace[0][1]
        # "!H4I": 16-bit protocol version 1, then command and three arguments as big-endian words
        return (select(d, 0) == 0 and select(d, 1) == 1 and be32(d, 2) == cmd
                and be32(d, 6) == arg1 and be32(d, 10) == arg2 and be32(d, 14) == arg3)

    def ensures_payload_is_the_data_with_each_word_byte_swapped(data, _trace):
        d = _trace[0][1]
        return (seq_len(d) == 18 + seq_len(data)
                and forall_range(0, seq_len(data), lambda j: select(d, 18 + j) == select(data, j - j % 4 + 3 - j % 4)))
