#!/bin/bash
# usage: tools/baseline.sh [repo_dir]   -- runs the pinned baseline command in repo_dir (default /repo)
# and reports how many of the 475 stable-pass tests still pass.  exit 0 iff all of them pass.
R=${1:-/repo}
OUT=$(mktemp /tmp/baseline.XXXXXX.xml)
trap 'rm -f "$OUT"' EXIT
( cd "$R" && /venv/bin/python -m pytest -ra -q -p no:cacheprovider --timeout=900 --continue-on-collection-errors --junitxml="$OUT" >/dev/null 2>&1 )
/venv/bin/python - "$OUT" <<'PY'
import json,sys,xml.etree.ElementTree as ET
base=set(json.load(open('/root/.vp/BASELINE.json'))['stable_pass'])
t=ET.parse(sys.argv[1]); ok=set(); allp=0
for tc in t.iter('testcase'):
    bad=any(c.tag in('failure','error','skipped') for c in tc)
    name=(tc.get('classname') or '')+'::'+tc.get('name')
    if not bad:
        ok.add(name); allp+=1
missing=sorted(base-ok)
print("baseline stable:",len(base),"still passing:",len(base&ok),"total passing now:",allp)
for m in missing[:20]: print("  MISSING",m)
sys.exit(1 if missing else 0)
PY
