#!/bin/bash
# tools/confirm_seed.sh <src_dir> <name>   e.g. /tmp/seed/out/C11/a C11a
# Confirms in a scratch worktree (outside /repo and /verif, removed afterwards) that the patch applies,
# the 475 baseline tests still pass with it, the demo fails with it and passes without it.
# On success copies patch.diff, demo.py, notes.md to /verif/seeded/<name>/ and writes meta.json.
SRC=$1; NAME=$2; PROP=${NAME:0:3}
WT=$(mktemp -d /tmp/confirm.XXXXXX)
trap 'git -C /repo worktree remove --force "$WT" >/dev/null 2>&1; rm -rf "$WT"' EXIT
git -C /repo worktree add -q --detach "$WT" HEAD || exit 2
cd "$WT"
/venv/bin/python "$SRC/demo.py" "$WT" >/dev/null 2>&1; CLEAN=$?
git apply "$SRC/patch.diff" || { echo "$NAME: patch does not apply"; exit 1; }
/venv/bin/python -c "import sys; sys.path.insert(0,'$WT'); import rig, rig.machine_control, rig.place_and_route" >/dev/null 2>&1 || { echo "$NAME: does not import"; exit 1; }
/venv/bin/python "$SRC/demo.py" "$WT" >/tmp/confirm_$NAME.demo.out 2>&1; PATCHED=$?
BL=$(/verif/tools/baseline.sh "$WT" | head -1)
echo "$NAME: demo clean=$CLEAN patched=$PATCHED; $BL"
if [ "$CLEAN" = 0 ] && [ "$PATCHED" = 1 ] && echo "$BL" | grep -q "still passing: 475"; then
  mkdir -p /verif/seeded/$NAME
  cp "$SRC/patch.diff" "$SRC/demo.py" /verif/seeded/$NAME/
  [ -f "$SRC/notes.md" ] && cp "$SRC/notes.md" /verif/seeded/$NAME/
  /venv/bin/python - "$NAME" "$PROP" "$SRC" <<'PY'
import json,sys,subprocess
name,prop,src=sys.argv[1:4]
notes=open(src+"/notes.md").read() if __import__('os').path.exists(src+"/notes.md") else ""
head=subprocess.check_output(["git","-C","/repo","rev-parse","--short","HEAD"]).decode().strip()
json.dump({"id":name,"breaks_property":prop,"source":"independent sub-agent given only the property text and a scratch worktree",
 "needs_to_manifest":notes[:1500],"base_commit":head,
 "confirmed":{"patch_applies":True,"imports":True,"baseline_475_pass_with_patch":True,"demo_exit_clean":0,"demo_exit_patched":1,
   "how":"tools/confirm_seed.sh in a scratch git worktree of /repo (removed afterwards)"},
 "detected_by":None}, open("/verif/seeded/%s/meta.json"%name,"w"), indent=1)
PY
  exit 0
fi
exit 1
