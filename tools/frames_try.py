import sys, warnings
warnings.simplefilter("ignore")
sys.setrecursionlimit(10000)
from pyvc.frames import check_frame
targets = sys.argv[1:] or [
 "rig/place_and_route/place/utils.py::resources_after_reservation",
 "rig/place_and_route/place/utils.py::subtract_resources",
 "rig/place_and_route/place/utils.py::apply_reserve_resource_constraint",
 "rig/place_and_route/place/utils.py::apply_same_chip_constraints",
 "rig/place_and_route/place/utils.py::finalise_same_chip_constraints",
 "rig/routing_table/remove_default_routes.py::minimise",
 "rig/routing_table/ordered_covering.py::minimise",
 "rig/routing_table/ordered_covering.py::ordered_covering",
 "rig/routing_table/minimise.py::minimise_table",
 "rig/routing_table/minimise.py::minimise_tables",
 "rig/place_and_route/allocate/greedy.py::allocate",
 "rig/place_and_route/place/sequential.py::place",
 "rig/place_and_route/place/rand.py::place",
 "rig/place_and_route/place/hilbert.py::place",
 "rig/place_and_route/place/breadth_first.py::place",
 "rig/place_and_route/place/rcm.py::place",
 "rig/place_and_route/place/sa/algorithm.py::place",
 "rig/place_and_route/route/ner.py::route",
 "rig/routing_table/utils.py::routing_tree_to_tables",
 "rig/place_and_route/machine.py::Machine.copy",
 "rig/place_and_route/machine.py::Machine.__init__",
 "rig/utils/contexts.py::Context.__init__",
]
import time
for t in targets:
    t0=time.time()
    types = {"machine": "rig/place_and_route/machine.py::Machine"} if "machine" in open("/repo/"+t.split("::")[0]).read() else {}
    if t.endswith("Machine.copy"): types={"self": "rig/place_and_route/machine.py::Machine"}
    try:
        r = check_frame(t, types=types)
    except Exception as e:
        import traceback; traceback.print_exc(); print("CRASH", t); continue
    print("==", t, "steps", r["steps"], "%.1fs"%(time.time()-t0), "err", r["error"], "fns", len(r["functions"]))
    for root, recs in r["effects"].items():
        print("   EFFECT on", root)
        for rec in recs[:4]: print("       ", rec)
    for g in r["global_writes"][:3]: print("   global", g)
    for a in r["assumed"][:12]: print("   assumed:", a)
