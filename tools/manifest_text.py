TEXT = {
 "C11": dict(
   design_ref="DESIGN.md 8/C11",
   technique="contract-based deductive verification (pyvc: VCs from the real AST, z3/cvc5) + code-independent SMT lemmas",
   text="Every listed function of rig/geometry.py is verified against a postcondition taken from the property statement for ALL integer inputs and all outcomes of the random tie-breaks: path lengths equal hexd / the minimum of hexd over the four nearest lifts, path vectors have exactly that many hops and lead to the destination (modulo the torus size). Two SMT lemmas show that hexd is 1-Lipschitz along every link (so no walk is shorter) and that no lift of the destination beats the four considered, which is what makes the closed forms the graph distance. Unit tests sample a handful of pairs; the obligations quantify over all of Z^3 x Z^3 x sizes.",
   note="Trusted: pyvc's encoding of the Python subset, z3; induction over walk length is the standard argument from the proved step lemma. Bounded part (not counted as proved): BFS on all tori up to 7x7 (12x12 thorough)."),
 "C19": dict(
   design_ref="DESIGN.md 8/C19",
   technique="contract-based deductive verification (pyvc) of the table-driven functions against an independent tile model; finite table lemmas; bounded enumeration for generator completeness and the float sqrt",
   text="spinn5_chip_coord, spinn5_local_eth_coord and spinn5_fpga_link are proved, with the real 12x12 offset table and the real FPGA dictionary read from the module on every run, to agree with an independent description of the tiling (48-chip hexagon, Ethernet chips at (0,0),(4,8),(8,4) mod 12) for ALL integer chip coordinates, root offsets and machine sizes; uniqueness of the board of a chip and distinctness of the 48 FPGA link numbers are SMT lemmas; every coordinate yielded by spinn5_eth_coords is proved to be an Ethernet chip inside the machine (ghost assertion at the yield).  Completeness of spinn5_eth_coords and standard_system_dimensions (float sqrt) are bounded: exhaustive over all sizes <= 26 (60 thorough) x 144 roots and all board counts <= 30000 (300000).",
   note="Trusted: the tile model in specs/c19_spinn5.py, pyvc encoding, z3. Bounded parts are labelled bounded and not counted among the discharged obligations."),
 "C15": dict(
   design_ref="DESIGN.md 8/C15",
   technique="contract-based deductive verification (pyvc) of encoders, decoders and of the real encoder composed with the real decoder",
   text="SDPPacket.bytestring (for SDP and SCP packets), both from_bytestring decoders and the two compositions decode(encode(p)) are verified for ALL field values over their full widths, 0-3 leading arguments and payloads of ANY length: the bytes equal the layout written from the property statement, the decoders take min(n_args, words present, 3) arguments and leave the rest as payload for every input length >= 14 (shorter inputs raise struct.error and nothing else), and the round trip returns every field unchanged.",
   note="Trusted: pyvc's struct model (cross-checked against CPython every run), sequences as arrays+length, z3. Packets with non-leading arguments (arg2 set, arg1 None) are outside the precondition, as in the property statement ('the present arguments')."),
}
NA = {}
