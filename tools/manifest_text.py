TEXT = {
 "C11": dict(
   design_ref="DESIGN.md 8/C11",
   technique="contract-based deductive verification (pyvc: VCs from the real AST, z3/cvc5) + code-independent SMT lemmas",
   text="Every listed function of rig/geometry.py is verified against a postcondition taken from the property statement for ALL integer inputs and all outcomes of the random tie-breaks: path lengths equal hexd / the minimum of hexd over the four nearest lifts, path vectors have exactly that many hops and lead to the destination (modulo the torus size). Two SMT lemmas show that hexd is 1-Lipschitz along every link (so no walk is shorter) and that no lift of the destination beats the four considered, which is what makes the closed forms the graph distance. Unit tests sample a handful of pairs; the obligations quantify over all of Z^3 x Z^3 x sizes.",
   note="Trusted: pyvc's encoding of the Python subset, z3; induction over walk length is the standard argument from the proved step lemma. Bounded part (not counted as proved): BFS on all tori up to 7x7 (12x12 thorough)."),
}
NA = {}
