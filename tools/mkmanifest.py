"""Generate MANIFEST.json from pyvc/props.py + tools/manifest_text.py (kept valid at all times)."""
import json, sys, os
sys.path.insert(0, os.path.dirname(os.path.dirname(os.path.abspath(__file__))))
from pyvc import props as P
from tools import manifest_text as T

props = [json.loads(l) for l in open("properties.jsonl")]
checks, na = [], []
for p in props:
    pid = p["id"]
    if pid in P.PROPS and pid in T.TEXT:
        t = T.TEXT[pid]
        checks.append({
            "property_id": pid,
            "quick_cmd": "./check %s --tier quick" % pid,
            "thorough_cmd": "./check %s --tier thorough" % pid,
            "evidence_file": "/verif/evidence/%s.json" % pid,
            "replay_cmd_template": "./check replay {path}",
            "engine": "pyvc",
            "level_claimed": {"category": P.PROPS[pid]["level"], "text": t["text"], "design_ref": t["design_ref"]},
            "level_note": t["note"],
            "technique": t["technique"],
        })
    else:
        na.append({"property_id": pid, "reason": T.NA.get(pid, "check not built yet in this session (contract-based machinery for this property is planned in DESIGN.md section 8; it is not claimed until its check exists and passes)")})
m = {
    "version": 1,
    "setup_cmd": "./setup.sh",
    "hooks": {"guard": "MUNDYA_RIG_VERIF", "enable": "none needed: contracts are sidecar files under /verif/specs and the repository source is parsed and imported as it is; the guard name is reserved and unused",
              "baseline_off_cmd": "cd /repo && /venv/bin/python -m pytest -ra -q -p no:cacheprovider --timeout=900 --continue-on-collection-errors",
              "source_commits": [], "add_only": True},
    "engines": [{"name": "pyvc", "path": "/verif/pyvc", "serves_properties": sorted(P.PROPS),
                 "kind_free_text": "contract-based deductive verifier for a Python subset: ast -> z3 verification conditions generated from the repository's real source on every run, sidecar contracts in /verif/specs, cvc5 as second solver, native replay of counterexamples; bounded small-scope stand-ins under /verif/bounded (labelled bounded, never counted as proved)"}],
    "checks": checks,
    "not_applicable": na,
    "notes": "Exit codes: 0 held, 1 violation (VIOLATION line), 2 undecided, 3 checker error. Known findings: /verif/known_findings.json. Obligations proved on the unchanged tree: /verif/obligations.lock.json.",
}
json.dump(m, open("MANIFEST.json", "w"), indent=1)
import jsonschema
jsonschema.validate(m, json.load(open("/root/.vp/MANIFEST.schema.json")))
print("MANIFEST ok: %d checks, %d not_applicable" % (len(checks), len(na)))
