#!/usr/bin/env python3
"""tools/mkseedprompts.py <round dir, e.g. /tmp/seed5>  -- write <dir>/prompt_Cxx.txt for every property from
tools/seed_prompt.tmpl: the property text (title, statement, quantifier - nothing else from /verif) and the sites the earlier
rounds used (first line of each seeded/<id>/notes.md and the functions named in the hunks of its patch)."""
import json, os, re, sys
out = sys.argv[1]
tmpl = open("/verif/tools/seed_prompt.tmpl").read().replace("/tmp/seed3", out)
os.makedirs(out + "/out", exist_ok=True)
for line in open("/verif/properties.jsonl"):
    p = json.loads(line)
    text = "%s: %s\n\n%s\n\nQuantified over: %s" % (p["id"], p["title"], p["statement"], p["quantifier"]["text"])
    used = []
    for d in sorted(os.listdir("/verif/seeded")):
        if d.startswith(p["id"]) and os.path.isdir("/verif/seeded/" + d):
            notes = ""
            f = "/verif/seeded/%s/notes.md" % d
            if os.path.exists(f):
                notes = next((l.strip("# \n") for l in open(f) if l.strip()), "")
            hunks = set()
            for l in open("/verif/seeded/%s/patch.diff" % d):
                m = re.match(r"^\+\+\+ b/(.*)$", l)
                if m:
                    cur = m.group(1)
                m = re.match(r"^@@.*@@\s*(?:def|class)\s+(\w+)", l)
                if m:
                    hunks.add("%s::%s" % (cur, m.group(1)))
            used.append(" - %s  [%s]" % (notes[:160], ", ".join(sorted(hunks))[:200]))
    open("%s/prompt_%s.txt" % (out, p["id"]), "w").write(
        tmpl.replace("@ID@", p["id"]).replace("@PROP@", text).replace("@USED@", "\n".join(used)))
    os.makedirs("%s/out/%s/a" % (out, p["id"]), exist_ok=True)
    os.makedirs("%s/out/%s/b" % (out, p["id"]), exist_ok=True)
print("prompts written to", out)
