#!/bin/bash
# tools/mutdev.sh <spec module> <filter> <file rel> <sed expr> : apply sed to a scratch worktree (removed afterwards) and run
# the developer entry point (python -m pyvc.run) on the contracts whose name contains <filter>
WT=$(mktemp -d /tmp/mut.XXXX); git -C /repo worktree add -q --detach $WT HEAD
sed -i "$4" $WT/$3
git -C $WT diff | grep '^[-+]' | grep -v '^+++\|^---'
cd /verif; VERIF_REPO=$WT PYTHONPATH=$WT .venv/bin/python -m pyvc.run $1 "$2" 2>&1 | grep -v "Warning\|\"\"\"" | cut -c1-260
git -C /repo worktree remove --force $WT; rm -rf $WT
