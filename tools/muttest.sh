#!/bin/bash
# /tmp/muttest.sh <prop> <file rel> <sed expr> : apply sed to a scratch worktree and run the dev check
WT=$(mktemp -d /tmp/mut.XXXX); git -C /repo worktree add -q --detach $WT HEAD
sed -i "$3" $WT/$2
git -C $WT diff | grep '^[-+]' | grep -v '^+++\|^---'
cd ${VROOT:-/verif}; VERIF_REPO=$WT PYTHONPATH=$WT ./check $1 2>&1 | grep -v KNOWN | grep "failed obligation\|UNDECIDED\|CHECKER\|demoted" | sort | uniq | head -${4:-6}
git -C /repo worktree remove --force $WT; rm -rf $WT
