#!/bin/bash
# run every registered check on the current tree (parallel), print one line per check
cd /verif
ids=$(.venv/bin/python -c "import json;print(' '.join(c['property_id'] for c in json.load(open('MANIFEST.json'))['checks']))")
run() { out=$(./check $1 --tier ${TIER:-quick} 2>&1); rc=$?; echo "$1 exit=$rc $(echo "$out" | grep -E "tier=" | tail -1)"; echo "$out" | grep -E "VIOLATION|CHECKER-ERROR|UNDECIDED" | head -5; }
export -f run
echo $ids | tr ' ' '\n' | xargs -P ${JOBS:-4} -I{} bash -c 'run {}'
.venv/bin/python - <<'PY'
import json,jsonschema,glob
sch=json.load(open('/root/.vp/EVIDENCE.schema.json')); m=json.load(open('MANIFEST.json'))
for c in m['checks']:
    e=json.load(open(c['evidence_file'])); jsonschema.validate(e,sch)
    ok = e['level']==c['level_claimed']['category'] and (e['level']!='proof' or e['coverage']['obligations']==e['coverage']['discharged'])
    print(c['property_id'], 'evidence', 'OK' if ok else 'MISMATCH', e['level'], e['coverage'].get('obligations'), e['coverage'].get('discharged'))
PY
