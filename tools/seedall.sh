#!/bin/bash
# tools/seedall.sh [jobs] -- regression over every seeded change, in parallel: each change is applied to its own scratch
# worktree of /repo (outside /repo and /verif, removed afterwards) and the quick check of the property it breaks is run against
# that tree (VERIF_REPO / PYTHONPATH).  One line per change in seeded/RESULTS.txt (exit=1: detected).  Evidence is restored.
JOBS=${1:-5}
OUT=/verif/seeded/RESULTS.txt
SAVE=$(mktemp -d /tmp/ev_save.XXXXXX); cp -r /verif/evidence/. $SAVE/
one() {
  n=$1; p=${n:0:3}
  # (a change whose effect belongs to the quantifier of another property - e.g. a transport fault that shows while loading
  #  tables - names that property in meta.json "check_under"; the reason is in its "detected_by")
  o=$(/venv/bin/python -c "import json;print(json.load(open('/verif/seeded/$n/meta.json')).get('check_under',''))" 2>/dev/null); [ -n "$o" ] && p=$o
  WT=$(mktemp -d /tmp/seedwt.XXXXXX)
  git -C /repo worktree add -q --detach $WT HEAD 2>/dev/null || { echo "$n exit=? worktree failed"; return; }
  if git -C $WT apply /verif/seeded/$n/patch.diff 2>/dev/null; then
    r=$(cd /verif && VERIF_JOBS=4 VERIF_REPO=$WT PYTHONPATH=$WT ./check $p --tier quick 2>&1); code=$?
    first=$(echo "$r" | grep "failed obligation" | head -1 | sed 's/  failed obligation: //' | cut -c1-140)
    echo "$n exit=$code $first"
  else
    echo "$n exit=? patch does not apply"
  fi
  git -C /repo worktree remove --force $WT >/dev/null 2>&1; rm -rf $WT
}
export -f one
ls /verif/seeded | grep '^C[0-9][0-9][a-z]$' | xargs -P $JOBS -I{} bash -c 'one {}' | sort > $OUT.tmp
mv $OUT.tmp $OUT
cp -r $SAVE/. /verif/evidence/; rm -rf $SAVE
grep -v "exit=1" $OUT
echo "seedall finished: $(grep -c 'exit=1' $OUT) of $(wc -l < $OUT) detected"
