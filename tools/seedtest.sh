#!/bin/bash
# tools/seedtest.sh <name> [prop...]  -- apply /verif/seeded/<name>/patch.diff to /repo, run the checks, undo.
NAME=$1; shift; PROPS=${@:-${NAME:0:3}}
cd /repo && git diff --quiet || { echo "/repo not clean"; exit 2; }
git apply /verif/seeded/$NAME/patch.diff || exit 2
mkdir -p /tmp/ev_save && cp -r /verif/evidence/. /tmp/ev_save/ 2>/dev/null
trap 'git -C /repo checkout -- .; cp -r /tmp/ev_save/. /verif/evidence/ 2>/dev/null' EXIT
for p in $PROPS; do (cd /verif && ./check $p --tier ${TIER:-quick} 2>&1 | grep -E "VIOLATION|failed obligation|CHECKER-ERROR|UNDECIDED|KNOWN|tier=|demoted" | cut -c1-300; echo "[$NAME on $p] exit=${PIPESTATUS[0]}"); done
