#!/bin/bash
# tools/seedtest_wt.sh <name> [prop...] -- like seedtest.sh, but the change is applied to a scratch worktree of /repo (removed
# afterwards) and the checks run against it (VERIF_REPO / PYTHONPATH): /repo itself is not touched, several can run at once.
# Evidence files written by the run are restored.
NAME=$1; shift; PROPS=${@:-${NAME:0:3}}
WT=$(mktemp -d /tmp/seedwt.XXXXXX); SAVE=$(mktemp -d /tmp/ev_save.XXXXXX)
trap 'git -C /repo worktree remove --force "$WT" >/dev/null 2>&1; rm -rf "$WT"; for p in $PROPS; do cp "$SAVE/$p.json" /verif/evidence/ 2>/dev/null; done; rm -rf "$SAVE"' EXIT
for p in $PROPS; do cp /verif/evidence/$p.json $SAVE/ 2>/dev/null; done
git -C /repo worktree add -q --detach "$WT" HEAD || exit 2
git -C "$WT" apply /verif/seeded/$NAME/patch.diff || exit 2
for p in $PROPS; do (cd /verif && VERIF_REPO=$WT PYTHONPATH=$WT ./check $p --tier ${TIER:-quick} 2>&1 | grep -E "VIOLATION|failed obligation|CHECKER-ERROR|UNDECIDED|KNOWN|tier=|demoted" | cut -c1-300; echo "[$NAME on $p] exit=${PIPESTATUS[0]}"); done
