#!/usr/bin/env python3
"""tools/setdet.py <seed name> <text>  -- record which check detected a seeded change"""
import json, sys
p = "/verif/seeded/%s/meta.json" % sys.argv[1]
d = json.load(open(p)); d["detected_by"] = sys.argv[2]; d["round"] = d.get("round", {"a": 1, "b": 1, "c": 2, "d": 2, "e": 3, "f": 3}.get(sys.argv[1][-1], 4))
json.dump(d, open(p, "w"), indent=1)
